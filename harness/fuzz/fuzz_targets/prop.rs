#![no_main]
//! One libFuzzer target for every property: GEOVERIF_FUZZ_ID selects which one.
use libfuzzer_sys::fuzz_target;
use std::sync::OnceLock;

static ID: OnceLock<String> = OnceLock::new();

fuzz_target!(|data: &[u8]| {
    let id = ID.get_or_init(|| std::env::var("GEOVERIF_FUZZ_ID").unwrap_or_else(|_| "C01".to_string()));
    geoverif::fuzz::run_by_id(id, data);
});
