//! Exact arithmetic for the reference model.
//!
//! * `HP`: a rational point in homogeneous integer coordinates (x/w, y/w), w>0,
//!   all operations `checked_*` on i128. An overflow is a harness bug: it aborts
//!   the process with exit code 2, it is never reported as a violation.
//! * `Rat`: normalised i128 rational (used for slab ordinates and exact values).
//! * `big`: hand-written arbitrary-precision integers for the f64 predicates.
pub mod big;

pub type C = (i64, i64);

pub fn overflow() -> ! {
    eprintln!("INCONCLUSIVE: exact arithmetic overflow inside the reference model (harness limit)");
    std::process::exit(2);
}

#[inline]
pub fn mul(a: i128, b: i128) -> i128 {
    match a.checked_mul(b) {
        Some(v) => v,
        None => overflow(),
    }
}
#[inline]
pub fn add(a: i128, b: i128) -> i128 {
    match a.checked_add(b) {
        Some(v) => v,
        None => overflow(),
    }
}
#[inline]
pub fn sub(a: i128, b: i128) -> i128 {
    match a.checked_sub(b) {
        Some(v) => v,
        None => overflow(),
    }
}

pub fn gcd(mut a: i128, mut b: i128) -> i128 {
    a = a.abs();
    b = b.abs();
    while b != 0 {
        let t = a % b;
        a = b;
        b = t;
    }
    a
}

/// Rational point (x/w, y/w), w > 0, gcd(x,y,w) = 1 (canonical, so Eq/Hash work).
#[derive(Clone, Copy, Debug, PartialEq, Eq, Hash, PartialOrd, Ord)]
pub struct HP {
    pub x: i128,
    pub y: i128,
    pub w: i128,
}

impl HP {
    pub fn new(x: i128, y: i128, w: i128) -> HP {
        assert!(w != 0);
        let (mut x, mut y, mut w) = (x, y, w);
        if w < 0 {
            x = -x;
            y = -y;
            w = -w;
        }
        let g = gcd(gcd(x, y), w);
        if g > 1 {
            x /= g;
            y /= g;
            w /= g;
        }
        HP { x, y, w }
    }
    pub fn int(c: C) -> HP {
        HP { x: c.0 as i128, y: c.1 as i128, w: 1 }
    }
    pub fn mid(a: C, b: C) -> HP {
        HP::new(a.0 as i128 + b.0 as i128, a.1 as i128 + b.1 as i128, 2)
    }
    pub fn mid_hp(a: HP, b: HP) -> HP {
        // (a.x/a.w + b.x/b.w)/2
        let w = mul(mul(a.w, b.w), 2);
        HP::new(
            add(mul(a.x, b.w), mul(b.x, a.w)),
            add(mul(a.y, b.w), mul(b.y, a.w)),
            w,
        )
    }
    pub fn is_int(&self) -> Option<C> {
        if self.w == 1 {
            Some((self.x as i64, self.y as i64))
        } else {
            None
        }
    }
    pub fn xr(&self) -> Rat {
        Rat::new(self.x, self.w)
    }
    pub fn yr(&self) -> Rat {
        Rat::new(self.y, self.w)
    }
    pub fn to_f64(&self) -> (f64, f64) {
        (self.x as f64 / self.w as f64, self.y as f64 / self.w as f64)
    }
    pub fn eq_int(&self, c: C) -> bool {
        self.w == 1 && self.x == c.0 as i128 && self.y == c.1 as i128
    }
}

/// sign of cross(b-a, p-a) for integer a,b and rational p (scaled by p.w > 0)
pub fn orient_hp(a: C, b: C, p: HP) -> i32 {
    let (ax, ay, bx, by) = (a.0 as i128, a.1 as i128, b.0 as i128, b.1 as i128);
    let px = sub(p.x, mul(ax, p.w));
    let py = sub(p.y, mul(ay, p.w));
    let v = sub(mul(bx - ax, py), mul(by - ay, px));
    v.signum() as i32
}

pub fn orient_int(a: C, b: C, c: C) -> i32 {
    let v = (b.0 as i128 - a.0 as i128) * (c.1 as i128 - a.1 as i128)
        - (b.1 as i128 - a.1 as i128) * (c.0 as i128 - a.0 as i128);
    v.signum() as i32
}

pub fn cross_int(a: C, b: C, c: C) -> i128 {
    (b.0 as i128 - a.0 as i128) * (c.1 as i128 - a.1 as i128)
        - (b.1 as i128 - a.1 as i128) * (c.0 as i128 - a.0 as i128)
}

/// p lies on the closed segment [a,b] (a may equal b)
pub fn on_segment_hp(a: C, b: C, p: HP) -> bool {
    if orient_hp(a, b, p) != 0 {
        // for a == b orient is 0 identically, handled by the box test
        return false;
    }
    let (x0, x1) = (a.0.min(b.0) as i128, a.0.max(b.0) as i128);
    let (y0, y1) = (a.1.min(b.1) as i128, a.1.max(b.1) as i128);
    mul(x0, p.w) <= p.x && p.x <= mul(x1, p.w) && mul(y0, p.w) <= p.y && p.y <= mul(y1, p.w)
}

pub fn on_segment_int(a: C, b: C, p: C) -> bool {
    on_segment_hp(a, b, HP::int(p))
}

/// Intersection of closed integer segments.
#[derive(Clone, Copy, Debug, PartialEq, Eq)]
pub enum SegInt {
    None,
    Point(HP),
    /// collinear overlap of positive length, endpoints as integer coordinates
    Overlap(C, C),
}

pub fn seg_intersection(a: C, b: C, c: C, d: C) -> SegInt {
    // degenerate segments
    if a == b && c == d {
        return if a == c { SegInt::Point(HP::int(a)) } else { SegInt::None };
    }
    if a == b {
        return if on_segment_int(c, d, a) { SegInt::Point(HP::int(a)) } else { SegInt::None };
    }
    if c == d {
        return if on_segment_int(a, b, c) { SegInt::Point(HP::int(c)) } else { SegInt::None };
    }
    let o1 = orient_int(a, b, c);
    let o2 = orient_int(a, b, d);
    let o3 = orient_int(c, d, a);
    let o4 = orient_int(c, d, b);
    if o1 == 0 && o2 == 0 {
        // collinear: project on the dominant axis, keep lexicographic order
        let key = |p: C| -> (i64, i64) { (p.0, p.1) };
        let (mut a, mut b, mut c, mut d) = (a, b, c, d);
        if key(a) > key(b) {
            std::mem::swap(&mut a, &mut b);
        }
        if key(c) > key(d) {
            std::mem::swap(&mut c, &mut d);
        }
        let lo = if key(a) > key(c) { a } else { c };
        let hi = if key(b) < key(d) { b } else { d };
        return if key(lo) > key(hi) {
            SegInt::None
        } else if lo == hi {
            SegInt::Point(HP::int(lo))
        } else {
            SegInt::Overlap(lo, hi)
        };
    }
    if o1 * o2 > 0 || o3 * o4 > 0 {
        return SegInt::None;
    }
    // single point: a + t (b-a), t = cross(c-a, d-c)/cross(b-a, d-c)
    let (ax, ay) = (a.0 as i128, a.1 as i128);
    let rx = b.0 as i128 - ax;
    let ry = b.1 as i128 - ay;
    let sx = d.0 as i128 - c.0 as i128;
    let sy = d.1 as i128 - c.1 as i128;
    let den = rx * sy - ry * sx;
    debug_assert!(den != 0);
    let num = (c.0 as i128 - ax) * sy - (c.1 as i128 - ay) * sx;
    SegInt::Point(HP::new(ax * den + num * rx, ay * den + num * ry, den))
}

// ---------------------------------------------------------------------------

#[derive(Clone, Copy, Debug, PartialEq, Eq, Hash)]
pub struct Rat {
    pub n: i128,
    pub d: i128,
}
impl Rat {
    pub fn new(n: i128, d: i128) -> Rat {
        assert!(d != 0);
        let (mut n, mut d) = (n, d);
        if d < 0 {
            n = -n;
            d = -d;
        }
        let g = gcd(n, d);
        if g > 1 {
            n /= g;
            d /= g;
        }
        Rat { n, d }
    }
    pub fn int(v: i128) -> Rat {
        Rat { n: v, d: 1 }
    }
    pub fn add(self, o: Rat) -> Rat {
        Rat::new(add(mul(self.n, o.d), mul(o.n, self.d)), mul(self.d, o.d))
    }
    pub fn sub(self, o: Rat) -> Rat {
        Rat::new(sub(mul(self.n, o.d), mul(o.n, self.d)), mul(self.d, o.d))
    }
    pub fn mul(self, o: Rat) -> Rat {
        Rat::new(mul(self.n, o.n), mul(self.d, o.d))
    }
    pub fn div(self, o: Rat) -> Rat {
        assert!(o.n != 0);
        Rat::new(mul(self.n, o.d), mul(self.d, o.n))
    }
    pub fn to_f64(self) -> f64 {
        self.n as f64 / self.d as f64
    }
    pub fn floor(self) -> i128 {
        self.n.div_euclid(self.d)
    }
    pub fn is_zero(self) -> bool {
        self.n == 0
    }
    pub fn signum(self) -> i32 {
        self.n.signum() as i32
    }
    pub fn abs(self) -> Rat {
        Rat { n: self.n.abs(), d: self.d }
    }
    pub fn min(self, o: Rat) -> Rat {
        if self <= o {
            self
        } else {
            o
        }
    }
}
impl PartialOrd for Rat {
    fn partial_cmp(&self, o: &Rat) -> Option<std::cmp::Ordering> {
        Some(self.cmp(o))
    }
}
impl Ord for Rat {
    fn cmp(&self, o: &Rat) -> std::cmp::Ordering {
        mul(self.n, o.d).cmp(&mul(o.n, self.d))
    }
}

/// The dyadic rational with the smallest denominator strictly between lo < hi.
pub fn simplest_dyadic_between(lo: Rat, hi: Rat) -> Rat {
    assert!(lo < hi);
    let mut k: u32 = 0;
    loop {
        let p = 1i128 << k;
        // m = floor(lo * 2^k) + 1
        let m = Rat::new(mul(lo.n, p), lo.d).floor() + 1;
        let cand = Rat::new(m, p);
        if cand < hi {
            return cand;
        }
        k += 1;
        if k > 100 {
            overflow();
        }
    }
}
