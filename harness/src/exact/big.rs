//! Minimal arbitrary-precision signed integers (add, sub, mul, shl, cmp) and an
//! exact dyadic number type `Dy = m * 2^e` built on it, for the f64 predicates.
use std::cmp::Ordering;

#[derive(Clone, Debug, PartialEq, Eq)]
pub struct Big {
    /// -1, 0, 1
    pub sign: i8,
    /// little-endian base 2^32 magnitude, no trailing zeros
    pub mag: Vec<u32>,
}

fn trim(v: &mut Vec<u32>) {
    while let Some(&0) = v.last() {
        v.pop();
    }
}
fn cmp_mag(a: &[u32], b: &[u32]) -> Ordering {
    if a.len() != b.len() {
        return a.len().cmp(&b.len());
    }
    for i in (0..a.len()).rev() {
        if a[i] != b[i] {
            return a[i].cmp(&b[i]);
        }
    }
    Ordering::Equal
}
fn add_mag(a: &[u32], b: &[u32]) -> Vec<u32> {
    let (a, b) = if a.len() >= b.len() { (a, b) } else { (b, a) };
    let mut out = Vec::with_capacity(a.len() + 1);
    let mut carry = 0u64;
    for i in 0..a.len() {
        let s = a[i] as u64 + if i < b.len() { b[i] as u64 } else { 0 } + carry;
        out.push(s as u32);
        carry = s >> 32;
    }
    if carry > 0 {
        out.push(carry as u32);
    }
    out
}
/// a - b, requires a >= b
fn sub_mag(a: &[u32], b: &[u32]) -> Vec<u32> {
    let mut out = Vec::with_capacity(a.len());
    let mut borrow = 0i64;
    for i in 0..a.len() {
        let mut d = a[i] as i64 - borrow - if i < b.len() { b[i] as i64 } else { 0 };
        if d < 0 {
            d += 1 << 32;
            borrow = 1;
        } else {
            borrow = 0;
        }
        out.push(d as u32);
    }
    trim(&mut out);
    out
}

impl Big {
    pub fn zero() -> Big {
        Big { sign: 0, mag: vec![] }
    }
    pub fn from_i128(v: i128) -> Big {
        if v == 0 {
            return Big::zero();
        }
        let sign = if v < 0 { -1 } else { 1 };
        let mut m = v.unsigned_abs();
        let mut mag = vec![];
        while m > 0 {
            mag.push(m as u32);
            m >>= 32;
        }
        Big { sign, mag }
    }
    pub fn from_i64(v: i64) -> Big {
        Big::from_i128(v as i128)
    }
    pub fn is_zero(&self) -> bool {
        self.sign == 0
    }
    pub fn signum(&self) -> i32 {
        self.sign as i32
    }
    pub fn neg(&self) -> Big {
        Big { sign: -self.sign, mag: self.mag.clone() }
    }
    pub fn abs(&self) -> Big {
        Big { sign: self.sign.abs(), mag: self.mag.clone() }
    }
    pub fn add(&self, o: &Big) -> Big {
        if self.sign == 0 {
            return o.clone();
        }
        if o.sign == 0 {
            return self.clone();
        }
        if self.sign == o.sign {
            return Big { sign: self.sign, mag: add_mag(&self.mag, &o.mag) };
        }
        match cmp_mag(&self.mag, &o.mag) {
            Ordering::Equal => Big::zero(),
            Ordering::Greater => Big { sign: self.sign, mag: sub_mag(&self.mag, &o.mag) },
            Ordering::Less => Big { sign: o.sign, mag: sub_mag(&o.mag, &self.mag) },
        }
    }
    pub fn sub(&self, o: &Big) -> Big {
        self.add(&o.neg())
    }
    pub fn mul(&self, o: &Big) -> Big {
        if self.sign == 0 || o.sign == 0 {
            return Big::zero();
        }
        let mut out = vec![0u32; self.mag.len() + o.mag.len()];
        for i in 0..self.mag.len() {
            let mut carry = 0u64;
            for j in 0..o.mag.len() {
                let cur = out[i + j] as u64 + self.mag[i] as u64 * o.mag[j] as u64 + carry;
                out[i + j] = cur as u32;
                carry = cur >> 32;
            }
            let mut k = i + o.mag.len();
            while carry > 0 {
                let cur = out[k] as u64 + carry;
                out[k] = cur as u32;
                carry = cur >> 32;
                k += 1;
            }
        }
        trim(&mut out);
        Big { sign: self.sign * o.sign, mag: out }
    }
    pub fn shl(&self, n: u32) -> Big {
        if self.sign == 0 || n == 0 {
            return self.clone();
        }
        let words = (n / 32) as usize;
        let bits = n % 32;
        let mut out = vec![0u32; words];
        let mut carry = 0u64;
        for &m in &self.mag {
            let cur = ((m as u64) << bits) | carry;
            out.push(cur as u32);
            carry = cur >> 32;
        }
        if carry > 0 {
            out.push(carry as u32);
        }
        trim(&mut out);
        Big { sign: self.sign, mag: out }
    }
    /// nearest f64 (good to ~1 ulp; used for reporting and tolerances only)
    pub fn to_f64(&self) -> f64 {
        let mut v = 0.0f64;
        for &m in self.mag.iter().rev() {
            v = v * 4294967296.0 + m as f64;
        }
        v * self.sign as f64
    }
    pub fn bit_len(&self) -> u32 {
        match self.mag.last() {
            None => 0,
            Some(&t) => (self.mag.len() as u32 - 1) * 32 + (32 - t.leading_zeros()),
        }
    }
}
impl PartialOrd for Big {
    fn partial_cmp(&self, o: &Big) -> Option<Ordering> {
        Some(self.cmp(o))
    }
}
impl Ord for Big {
    fn cmp(&self, o: &Big) -> Ordering {
        if self.sign != o.sign {
            return self.sign.cmp(&o.sign);
        }
        match self.sign {
            0 => Ordering::Equal,
            1 => cmp_mag(&self.mag, &o.mag),
            _ => cmp_mag(&o.mag, &self.mag),
        }
    }
}

/// Exact dyadic number m * 2^e.
#[derive(Clone, Debug)]
pub struct Dy {
    pub m: Big,
    pub e: i32,
}

impl Dy {
    pub fn zero() -> Dy {
        Dy { m: Big::zero(), e: 0 }
    }
    pub fn from_f64(v: f64) -> Dy {
        assert!(v.is_finite());
        if v == 0.0 {
            return Dy::zero();
        }
        let bits = v.to_bits();
        let neg = bits >> 63 != 0;
        let exp = ((bits >> 52) & 0x7ff) as i32;
        let frac = bits & ((1u64 << 52) - 1);
        let (m, e) = if exp == 0 {
            (frac, -1074)
        } else {
            (frac | (1u64 << 52), exp - 1075)
        };
        let tz = m.trailing_zeros();
        let m = (m >> tz) as i128;
        Dy { m: Big::from_i128(if neg { -m } else { m }), e: e + tz as i32 }
    }
    pub fn from_i64(v: i64) -> Dy {
        Dy { m: Big::from_i64(v), e: 0 }
    }
    fn align(a: &Dy, b: &Dy) -> (Big, Big, i32) {
        let e = a.e.min(b.e);
        (a.m.shl((a.e - e) as u32), b.m.shl((b.e - e) as u32), e)
    }
    pub fn add(&self, o: &Dy) -> Dy {
        if self.m.is_zero() {
            return o.clone();
        }
        if o.m.is_zero() {
            return self.clone();
        }
        let (a, b, e) = Dy::align(self, o);
        Dy { m: a.add(&b), e }
    }
    pub fn sub(&self, o: &Dy) -> Dy {
        self.add(&o.neg())
    }
    pub fn neg(&self) -> Dy {
        Dy { m: self.m.neg(), e: self.e }
    }
    pub fn mul(&self, o: &Dy) -> Dy {
        Dy { m: self.m.mul(&o.m), e: self.e + o.e }
    }
    pub fn signum(&self) -> i32 {
        self.m.signum()
    }
    pub fn is_zero(&self) -> bool {
        self.m.is_zero()
    }
    pub fn cmp(&self, o: &Dy) -> Ordering {
        self.sub(o).signum().cmp(&0)
    }
    pub fn abs(&self) -> Dy {
        Dy { m: self.m.abs(), e: self.e }
    }
    pub fn to_f64(&self) -> f64 {
        // scale down carefully to avoid overflow: keep top 64 bits
        let bl = self.m.bit_len() as i32;
        if bl == 0 {
            return 0.0;
        }
        let mut v = 0.0f64;
        // take the top up-to-3 words
        let n = self.m.mag.len();
        let take = n.min(3);
        for i in (n - take..n).rev() {
            v = v * 4294967296.0 + self.m.mag[i] as f64;
        }
        let shift = ((n - take) as i32) * 32 + self.e;
        v * self.m.sign as f64 * 2f64.powi(shift.clamp(-2000, 2000))
    }
}

/// exact sign of orient2d(a,b,c) = (bx-ax)(cy-ay) - (by-ay)(cx-ax) on f64 input
pub fn orient_f64(a: (f64, f64), b: (f64, f64), c: (f64, f64)) -> i32 {
    let (ax, ay) = (Dy::from_f64(a.0), Dy::from_f64(a.1));
    let (bx, by) = (Dy::from_f64(b.0), Dy::from_f64(b.1));
    let (cx, cy) = (Dy::from_f64(c.0), Dy::from_f64(c.1));
    let l = bx.sub(&ax).mul(&cy.sub(&ay));
    let r = by.sub(&ay).mul(&cx.sub(&ax));
    l.sub(&r).signum()
}

#[cfg(test)]
mod tests {
    use super::*;
    #[test]
    fn big_matches_i128() {
        let vals: [i128; 9] = [0, 1, -1, 12345678901234567890, -98765432109876543210, 1 << 62, -(1 << 63), 4294967296, 4294967295];
        for &a in &vals {
            for &b in &vals {
                assert_eq!(Big::from_i128(a).add(&Big::from_i128(b)), Big::from_i128(a + b));
                assert_eq!(Big::from_i128(a).sub(&Big::from_i128(b)), Big::from_i128(a - b));
                if let Some(p) = a.checked_mul(b) {
                    assert_eq!(Big::from_i128(a).mul(&Big::from_i128(b)), Big::from_i128(p));
                }
                assert_eq!(Big::from_i128(a).cmp(&Big::from_i128(b)), a.cmp(&b));
            }
        }
    }
    #[test]
    fn dy_roundtrip() {
        for v in [0.1f64, -3.5, 1e300, 5e-324, 2f64.powi(52) + 1.0, -0.0] {
            assert_eq!(Dy::from_f64(v).to_f64(), v);
        }
    }
    #[test]
    fn orient_exact() {
        assert_eq!(orient_f64((0.0, 0.0), (1.0, 1.0), (2.0, 2.0)), 0);
        assert_eq!(orient_f64((0.0, 0.0), (1.0, 1.0), (2.0, 2.0000000000000004)), 1);
        let big = 2f64.powi(52);
        assert_eq!(orient_f64((big, big), (big + 1.0, big + 1.0), (big + 2.0, big + 3.0)), 1);
    }
}
