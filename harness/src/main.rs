use geoverif::engine::{self, Property, RunOpts, Tier};
use geoverif::props::*;
use std::path::PathBuf;

fn usage() -> ! {
    eprintln!("usage: geoverif run <ID> quick|thorough | replay <ID> <file> | list");
    std::process::exit(2)
}

macro_rules! dispatch {
    ($id:expr, $f:ident, $($arg:expr),*) => {
        match $id {
            "C01" => engine::$f::<c01::C01>($($arg),*),
            "C02" => engine::$f::<c02::C02>($($arg),*),
            "C03" => engine::$f::<c03::C03>($($arg),*),
            "C04" => engine::$f::<c04::C04>($($arg),*),
            "C05" => engine::$f::<c05::C05>($($arg),*),
            "C06" => engine::$f::<c06::C06>($($arg),*),
            "C07" => engine::$f::<c07::C07>($($arg),*),
            "C08" => engine::$f::<c08::C08>($($arg),*),
            "C09" => engine::$f::<c09::C09>($($arg),*),
            "C10" => engine::$f::<c10::C10>($($arg),*),
            "C11" => engine::$f::<c11::C11>($($arg),*),
            "C12" => engine::$f::<c12::C12>($($arg),*),
            "C13" => engine::$f::<c13::C13>($($arg),*),
            "C14" => engine::$f::<c14::C14>($($arg),*),
            "C15" => engine::$f::<c15::C15>($($arg),*),
            "C16" => engine::$f::<c16::C16>($($arg),*),
            "C17" => engine::$f::<c17::C17>($($arg),*),
            "C18" => engine::$f::<c18::C18>($($arg),*),
            "C19" => engine::$f::<c19::C19>($($arg),*),
            "C20" => engine::$f::<c20::C20>($($arg),*),
            _ => { eprintln!("unknown property {}", $id); std::process::exit(2) }
        }
    };
}

fn main() {
    let args: Vec<String> = std::env::args().collect();
    if args.len() < 2 {
        usage();
    }
    let root = PathBuf::from(std::env::var("VERIF_ROOT").unwrap_or_else(|_| "/verif".into()));
    let seed: u64 = std::env::var("VERIF_SEED").ok().and_then(|s| s.trim().parse::<i64>().ok()).map(|v| v as u64).unwrap_or(0);
    let scale: f64 = std::env::var("VERIF_SCALE").ok().and_then(|s| s.parse().ok()).unwrap_or(1.0);
    match args[1].as_str() {
        "run" => {
            if args.len() < 4 {
                usage();
            }
            let tier = match args[3].as_str() {
                "quick" => Tier::Quick,
                "thorough" => Tier::Thorough,
                _ => usage(),
            };
            let opts = RunOpts { tier, seed, root, scale };
            let code = dispatch!(args[2].as_str(), run, &opts);
            std::process::exit(code);
        }
        "replay" => {
            if args.len() < 4 {
                usage();
            }
            let code = dispatch!(args[2].as_str(), replay, &root, std::path::Path::new(&args[3]));
            std::process::exit(code);
        }
        "det-child" => std::process::exit(c20::det_child()),
        _ => usage(),
    }
}
#[allow(dead_code)]
fn _assert<P: Property>() {}
