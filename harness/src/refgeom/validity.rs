//! Exact validity model on the lattice. Two uses:
//!  * `in_relate_domain`: the soundness filter for every generator that must
//!    produce "valid geometries" (OGC validity incl. connected interior, simple
//!    line work, non-degenerate Rect/Triangle/Line, single-dimension collections
//!    of pairwise disjoint members);
//!  * `poly_report` / `mpoly_report`: literal transcription of the C14 statement,
//!    returning which ring / member has which defect.
use super::de9im::de9im;
use super::measure::twice_area_ring;
use super::*;
use std::collections::BTreeMap;

pub fn dedup_consecutive(r: &[C]) -> Vec<C> {
    let mut out: Vec<C> = Vec::with_capacity(r.len());
    for &c in r {
        if out.last() != Some(&c) {
            out.push(c);
        }
    }
    out
}

/// A closed curve given as closed vertex list (first == last), consecutive
/// duplicates already removed: is it a simple closed curve?
pub fn ring_is_simple(r: &[C]) -> bool {
    let n = r.len();
    if n < 4 || r[0] != r[n - 1] {
        return false;
    }
    let segs: Vec<(C, C)> = r.windows(2).map(|w| (w[0], w[1])).collect();
    let m = segs.len();
    for i in 0..m {
        for j in (i + 1)..m {
            let adj = j == i + 1 || (i == 0 && j == m - 1);
            let x = seg_intersection(segs[i].0, segs[i].1, segs[j].0, segs[j].1);
            if adj {
                // must meet exactly in the shared vertex
                let shared = if j == i + 1 { segs[i].1 } else { segs[0].0 };
                match x {
                    SegInt::Point(p) if p.eq_int(shared) => {}
                    _ => return false,
                }
                // a 3-segment ring: each pair shares exactly one vertex, fine
            } else if x != SegInt::None {
                return false;
            }
        }
    }
    true
}

#[derive(Clone, Copy, Debug, PartialEq, Eq, PartialOrd, Ord)]
pub enum RingDefect {
    NonFinite, // never produced by the lattice model; kept for the mapping table
    TooFewPoints,
    NotClosed,
    SelfIntersection,
    ZeroArea,
}

/// defects of one ring according to the C14 statement
pub fn ring_defects(r: &[C]) -> Vec<RingDefect> {
    let mut out = vec![];
    if r.is_empty() {
        return out; // an empty ring belongs to an empty polygon
    }
    let d = dedup_consecutive(r);
    if r.first() != r.last() {
        out.push(RingDefect::NotClosed);
    }
    if d.len() < 4 {
        out.push(RingDefect::TooFewPoints);
        return out;
    }
    if d.first() == d.last() {
        if !ring_is_simple(&d) {
            out.push(RingDefect::SelfIntersection);
        }
        if twice_area_ring(&d) == 0 {
            out.push(RingDefect::ZeroArea);
        }
    }
    out
}

#[derive(Clone, Debug, Default)]
pub struct PolyReport {
    /// (ring index: 0 = exterior, i+1 = interior i, defect)
    pub ring_defects: Vec<(usize, RingDefect)>,
    /// interior index whose ring is not inside the exterior ring
    pub hole_not_inside: Vec<usize>,
    /// ring index pairs (0 = exterior) whose boundaries share a line
    pub rings_share_line: Vec<(usize, usize)>,
    /// interior pairs whose interiors overlap (nested or crossing holes)
    pub holes_overlap: Vec<(usize, usize)>,
    /// rings cross (boundary of one passes from inside to outside of the other)
    pub rings_cross: Vec<(usize, usize)>,
    pub interior_connected: bool,
}
impl PolyReport {
    /// validity in the sense of the C14 statement (connectivity not demanded)
    pub fn valid_c14(&self) -> bool {
        self.ring_defects.is_empty()
            && self.hole_not_inside.is_empty()
            && self.rings_share_line.is_empty()
            && self.holes_overlap.is_empty()
            && self.rings_cross.is_empty()
    }
    pub fn valid_ogc(&self) -> bool {
        self.valid_c14() && self.interior_connected
    }
}

fn ring_poly(r: &[C]) -> G {
    G::Polygon(Poly::new(dedup_consecutive(r), vec![]))
}

pub fn poly_report(p: &Poly) -> PolyReport {
    let mut rep = PolyReport { interior_connected: true, ..Default::default() };
    if p.ext.is_empty() && p.holes.iter().all(|h| h.is_empty()) {
        return rep;
    }
    let rings: Vec<&Vec<C>> = p.rings().collect();
    for (i, r) in rings.iter().enumerate() {
        for d in ring_defects(r) {
            rep.ring_defects.push((i, d));
        }
    }
    if p.ext.is_empty() {
        // interior without exterior: every hole is "not inside"
        for i in 0..p.holes.len() {
            if !p.holes[i].is_empty() {
                rep.hole_not_inside.push(i);
            }
        }
        return rep;
    }
    // ring-vs-ring relations are only defined for well-formed rings: they are evaluated among those
    let malformed = |i: usize| rep.ring_defects.iter().any(|(k, _)| *k == i);
    let shell_ok = !malformed(0);
    let shell = if shell_ok { ring_poly(&p.ext) } else { G::Coll(vec![]) };
    let hole_idx: Vec<usize> = (0..p.holes.len()).filter(|i| !p.holes[*i].is_empty() && !malformed(*i + 1)).collect();
    let holes: Vec<G> = hole_idx.iter().map(|i| ring_poly(&p.holes[*i])).collect();
    for (k, h) in holes.iter().enumerate() {
        if !shell_ok {
            break;
        }
        let m = de9im(h, &shell);
        // hole must lie inside the shell: no part of it in the shell's exterior
        if m.get(Loc::I, Loc::E) >= 0 || m.get(Loc::B, Loc::E) >= 0 {
            if m.get(Loc::I, Loc::I) >= 0 && m.get(Loc::I, Loc::E) >= 0 && m.get(Loc::B, Loc::I) >= 0 && m.get(Loc::B, Loc::E) >= 0 {
                rep.rings_cross.push((0, hole_idx[k] + 1));
            }
            rep.hole_not_inside.push(hole_idx[k]);
        }
        if m.get(Loc::B, Loc::B) >= 1 {
            rep.rings_share_line.push((0, hole_idx[k] + 1));
        }
    }
    for i in 0..holes.len() {
        for j in (i + 1)..holes.len() {
            let m = de9im(&holes[i], &holes[j]);
            if m.get(Loc::I, Loc::I) >= 0 {
                rep.holes_overlap.push((hole_idx[i], hole_idx[j]));
            }
            if m.get(Loc::B, Loc::B) >= 1 {
                rep.rings_share_line.push((hole_idx[i] + 1, hole_idx[j] + 1));
            }
        }
    }
    if rep.valid_c14() {
        rep.interior_connected = touch_graph_is_forest(&rings.iter().map(|r| dedup_consecutive(r)).collect::<Vec<_>>());
    }
    rep
}

/// bipartite graph rings <-> touch points must be acyclic for the interior to
/// be connected (rings are simple and meet only at isolated points here)
fn touch_graph_is_forest(rings: &[Vec<C>]) -> bool {
    // collect touch points: points lying on >= 2 rings. They are either
    // vertices of one of the rings (lattice) — a touch of two edges' interiors
    // without a vertex would be a crossing, excluded earlier.
    let mut on: BTreeMap<C, Vec<usize>> = BTreeMap::new();
    for (i, r) in rings.iter().enumerate() {
        for &v in &r[..r.len().saturating_sub(1)] {
            for (j, s) in rings.iter().enumerate() {
                if i == j {
                    continue;
                }
                if s.windows(2).any(|w| on_segment_int(w[0], w[1], v)) {
                    let e = on.entry(v).or_default();
                    if !e.contains(&i) {
                        e.push(i);
                    }
                    if !e.contains(&j) {
                        e.push(j);
                    }
                }
            }
        }
    }
    // union-find over rings + points
    let n = rings.len() + on.len();
    let mut parent: Vec<usize> = (0..n).collect();
    fn find(p: &mut Vec<usize>, x: usize) -> usize {
        let mut x = x;
        while p[x] != x {
            p[x] = p[p[x]];
            x = p[x];
        }
        x
    }
    for (k, (_pt, rs)) in on.iter().enumerate() {
        let pn = rings.len() + k;
        for &r in rs {
            let (a, b) = (find(&mut parent, pn), find(&mut parent, r));
            if a == b {
                return false;
            }
            parent[a] = b;
        }
    }
    true
}

#[derive(Clone, Debug, Default)]
pub struct MPolyReport {
    pub invalid_members: Vec<usize>,
    pub members_overlap: Vec<(usize, usize)>,
    pub members_share_line: Vec<(usize, usize)>,
}
impl MPolyReport {
    pub fn valid(&self) -> bool {
        self.invalid_members.is_empty() && self.members_overlap.is_empty() && self.members_share_line.is_empty()
    }
}

pub fn mpoly_report(v: &[Poly]) -> MPolyReport {
    let mut rep = MPolyReport::default();
    for (i, p) in v.iter().enumerate() {
        if !poly_report(p).valid_c14() {
            rep.invalid_members.push(i);
        }
    }
    if !rep.invalid_members.is_empty() {
        return rep;
    }
    for i in 0..v.len() {
        for j in (i + 1)..v.len() {
            if v[i].is_empty() || v[j].is_empty() {
                continue;
            }
            let m = de9im(&G::Polygon(v[i].clone()), &G::Polygon(v[j].clone()));
            if m.get(Loc::I, Loc::I) >= 0 {
                rep.members_overlap.push((i, j));
            }
            if m.get(Loc::B, Loc::B) >= 1 {
                rep.members_share_line.push((i, j));
            }
        }
    }
    rep
}

/// OGC-simple line work: every member has >= 2 coordinates, no repeated
/// consecutive points, and any two segments meet only (a) in the vertex shared
/// by consecutive segments of one member (including the closing vertex of a
/// closed member), or (b) in a point that is an endpoint of both (open) members.
pub fn linework_simple(members: &[Vec<C>]) -> bool {
    struct S {
        a: C,
        b: C,
        m: usize,
        i: usize,
    }
    let mut segs: Vec<S> = vec![];
    for (mi, l) in members.iter().enumerate() {
        if l.len() < 2 {
            return false;
        }
        for (i, w) in l.windows(2).enumerate() {
            if w[0] == w[1] {
                return false;
            }
            segs.push(S { a: w[0], b: w[1], m: mi, i });
        }
    }
    let closed = |m: usize| members[m].first() == members[m].last();
    let is_end = |m: usize, p: HP| -> bool {
        !closed(m) && (p.eq_int(members[m][0]) || p.eq_int(*members[m].last().unwrap()))
    };
    for x in 0..segs.len() {
        for y in (x + 1)..segs.len() {
            let (s, t) = (&segs[x], &segs[y]);
            let r = seg_intersection(s.a, s.b, t.a, t.b);
            match r {
                SegInt::None => {}
                SegInt::Overlap(..) => return false,
                SegInt::Point(p) => {
                    if s.m == t.m {
                        let nseg = members[s.m].len() - 1;
                        let consecutive = t.i == s.i + 1 && p.eq_int(s.b);
                        let closing = closed(s.m) && s.i == 0 && t.i == nseg - 1 && p.eq_int(s.a) && nseg > 2;
                        if !(consecutive || closing) {
                            return false;
                        }
                    } else if !(is_end(s.m, p) && is_end(t.m, p)) {
                        return false;
                    }
                }
            }
        }
    }
    true
}

/// Is `g` inside the domain of the relate-family properties (C01, C02, C07, C12, C17)?
pub fn in_relate_domain(g: &G) -> bool {
    match g {
        G::Point(_) => true,
        G::MultiPoint(_) => true,
        G::Line(a, b) => a != b,
        G::LineString(v) => v.is_empty() || linework_simple(std::slice::from_ref(v)),
        G::MultiLineString(v) => {
            let ne: Vec<Vec<C>> = v.iter().filter(|l| !l.is_empty()).cloned().collect();
            linework_simple(&ne)
        }
        G::Polygon(p) => {
            let no_dups = p.rings().all(|r| dedup_consecutive(r).len() == r.len());
            no_dups && (p.is_empty() && p.holes.is_empty() || poly_report(p).valid_ogc() && !p.is_empty())
        }
        G::MultiPolygon(v) => {
            v.iter().all(|p| in_relate_domain(&G::Polygon(p.clone()))) && mpoly_report(v).valid()
        }
        G::Rect(a, b) => a.0 != b.0 && a.1 != b.1,
        G::Triangle(a, b, c) => orient_int(*a, *b, *c) != 0,
        G::Coll(v) => {
            if !v.iter().all(in_relate_domain) {
                return false;
            }
            let dims: Vec<i32> = v.iter().map(|g| g.dim()).filter(|d| *d >= 0).collect();
            if dims.windows(2).any(|w| w[0] != w[1]) {
                return false;
            }
            for i in 0..v.len() {
                for j in (i + 1)..v.len() {
                    if v[i].is_empty() || v[j].is_empty() {
                        continue;
                    }
                    if de9im(&v[i], &v[j]).intersects() {
                        return false;
                    }
                }
            }
            true
        }
    }
}
