//! Reference model: integer-lattice geometries with exact, by-definition
//! point location and DE-9IM (cell decomposition of the joint arrangement).
use crate::exact::*;
use serde::{Deserialize, Serialize};

pub mod cells;
pub mod de9im;
pub mod jts;
pub mod measure;
pub mod selftest;
pub mod validity;

pub use de9im::{de9im, Matrix};

#[derive(Clone, Debug, PartialEq, Eq, Serialize, Deserialize, Hash)]
pub struct Poly {
    /// closed ring (first == last) or empty
    pub ext: Vec<C>,
    pub holes: Vec<Vec<C>>,
}

/// Model geometry on the integer lattice. `Rect` holds two opposite corners
/// (any order), `Coll` is a GeometryCollection.
#[derive(Clone, Debug, PartialEq, Eq, Serialize, Deserialize, Hash)]
pub enum G {
    Point(C),
    Line(C, C),
    LineString(Vec<C>),
    Polygon(Poly),
    MultiPoint(Vec<C>),
    MultiLineString(Vec<Vec<C>>),
    MultiPolygon(Vec<Poly>),
    Rect(C, C),
    Triangle(C, C, C),
    Coll(Vec<G>),
}

#[derive(Clone, Copy, Debug, PartialEq, Eq, Hash, PartialOrd, Ord)]
pub enum Loc {
    I = 0,
    B = 1,
    E = 2,
}

pub fn rect_ring(a: C, b: C) -> Vec<C> {
    let (x0, x1) = (a.0.min(b.0), a.0.max(b.0));
    let (y0, y1) = (a.1.min(b.1), a.1.max(b.1));
    // same order as geo's Rect::to_polygon: (max.x,min.y),(max.x,max.y),(min.x,max.y),(min.x,min.y)
    vec![(x1, y0), (x1, y1), (x0, y1), (x0, y0), (x1, y0)]
}
pub fn tri_ring(a: C, b: C, c: C) -> Vec<C> {
    vec![a, b, c, a]
}

impl Poly {
    pub fn new(ext: Vec<C>, holes: Vec<Vec<C>>) -> Poly {
        Poly { ext, holes }
    }
    pub fn rings(&self) -> impl Iterator<Item = &Vec<C>> {
        std::iter::once(&self.ext).chain(self.holes.iter())
    }
    pub fn is_empty(&self) -> bool {
        self.ext.is_empty()
    }
}

impl G {
    pub fn type_name(&self) -> &'static str {
        match self {
            G::Point(_) => "Point",
            G::Line(..) => "Line",
            G::LineString(_) => "LineString",
            G::Polygon(_) => "Polygon",
            G::MultiPoint(_) => "MultiPoint",
            G::MultiLineString(_) => "MultiLineString",
            G::MultiPolygon(_) => "MultiPolygon",
            G::Rect(..) => "Rect",
            G::Triangle(..) => "Triangle",
            G::Coll(_) => "GeometryCollection",
        }
    }
    /// topological dimension (-1 for empty)
    pub fn dim(&self) -> i32 {
        match self {
            G::Point(_) => 0,
            G::MultiPoint(v) => {
                if v.is_empty() {
                    -1
                } else {
                    0
                }
            }
            G::Line(..) => 1,
            G::LineString(v) => {
                if v.is_empty() {
                    -1
                } else {
                    1
                }
            }
            G::MultiLineString(v) => {
                if v.iter().all(|l| l.is_empty()) {
                    -1
                } else {
                    1
                }
            }
            G::Polygon(p) => {
                if p.is_empty() {
                    -1
                } else {
                    2
                }
            }
            G::MultiPolygon(v) => {
                if v.iter().all(|p| p.is_empty()) {
                    -1
                } else {
                    2
                }
            }
            G::Rect(..) | G::Triangle(..) => 2,
            G::Coll(v) => v.iter().map(|g| g.dim()).max().unwrap_or(-1),
        }
    }
    pub fn is_empty(&self) -> bool {
        self.dim() < 0
    }
    /// all coordinates in traversal order
    pub fn coords(&self) -> Vec<C> {
        let mut out = vec![];
        self.visit_coords(&mut |c| out.push(c));
        out
    }
    pub fn visit_coords(&self, f: &mut dyn FnMut(C)) {
        match self {
            G::Point(c) => f(*c),
            G::Line(a, b) => {
                f(*a);
                f(*b)
            }
            G::LineString(v) | G::MultiPoint(v) => v.iter().for_each(|c| f(*c)),
            G::Polygon(p) => p.rings().for_each(|r| r.iter().for_each(|c| f(*c))),
            G::MultiLineString(v) => v.iter().for_each(|l| l.iter().for_each(|c| f(*c))),
            G::MultiPolygon(v) => v
                .iter()
                .for_each(|p| p.rings().for_each(|r| r.iter().for_each(|c| f(*c)))),
            G::Rect(a, b) => rect_ring(*a, *b)[..4].iter().for_each(|c| f(*c)),
            G::Triangle(a, b, c) => {
                f(*a);
                f(*b);
                f(*c)
            }
            G::Coll(v) => v.iter().for_each(|g| g.visit_coords(f)),
        }
    }
    pub fn map_coords(&self, f: &dyn Fn(C) -> C) -> G {
        let mv = |v: &Vec<C>| v.iter().map(|c| f(*c)).collect::<Vec<C>>();
        let mp = |p: &Poly| Poly { ext: mv(&p.ext), holes: p.holes.iter().map(&mv).collect() };
        match self {
            G::Point(c) => G::Point(f(*c)),
            G::Line(a, b) => G::Line(f(*a), f(*b)),
            G::LineString(v) => G::LineString(mv(v)),
            G::MultiPoint(v) => G::MultiPoint(mv(v)),
            G::Polygon(p) => G::Polygon(mp(p)),
            G::MultiLineString(v) => G::MultiLineString(v.iter().map(&mv).collect()),
            G::MultiPolygon(v) => G::MultiPolygon(v.iter().map(&mp).collect()),
            G::Rect(a, b) => G::Rect(f(*a), f(*b)),
            G::Triangle(a, b, c) => G::Triangle(f(*a), f(*b), f(*c)),
            G::Coll(v) => G::Coll(v.iter().map(|g| g.map_coords(f)).collect()),
        }
    }
    pub fn bbox(&self) -> Option<(C, C)> {
        let cs = self.coords();
        if cs.is_empty() {
            return None;
        }
        let x0 = cs.iter().map(|c| c.0).min().unwrap();
        let x1 = cs.iter().map(|c| c.0).max().unwrap();
        let y0 = cs.iter().map(|c| c.1).min().unwrap();
        let y1 = cs.iter().map(|c| c.1).max().unwrap();
        Some(((x0, y0), (x1, y1)))
    }

    /// Decompose into primitive parts for the arrangement:
    /// points, line-work members (each a vertex list), polygons.
    pub fn parts(&self, pts: &mut Vec<C>, lines: &mut Vec<Vec<C>>, polys: &mut Vec<Poly>) {
        match self {
            G::Point(c) => pts.push(*c),
            G::MultiPoint(v) => pts.extend(v.iter().cloned()),
            G::Line(a, b) => lines.push(vec![*a, *b]),
            G::LineString(v) => {
                if !v.is_empty() {
                    lines.push(v.clone())
                }
            }
            G::MultiLineString(v) => lines.extend(v.iter().filter(|l| !l.is_empty()).cloned()),
            G::Polygon(p) => {
                if !p.is_empty() {
                    polys.push(p.clone())
                }
            }
            G::MultiPolygon(v) => polys.extend(v.iter().filter(|p| !p.is_empty()).cloned()),
            G::Rect(a, b) => polys.push(Poly::new(rect_ring(*a, *b), vec![])),
            G::Triangle(a, b, c) => polys.push(Poly::new(tri_ring(*a, *b, *c), vec![])),
            G::Coll(v) => v.iter().for_each(|g| g.parts(pts, lines, polys)),
        }
    }
    /// all segments (ring edges and line segments), zero-length ones included
    pub fn segments(&self) -> Vec<(C, C)> {
        let (mut p, mut l, mut a) = (vec![], vec![], vec![]);
        self.parts(&mut p, &mut l, &mut a);
        let mut out = vec![];
        for ls in &l {
            for w in ls.windows(2) {
                out.push((w[0], w[1]));
            }
        }
        for po in &a {
            for r in po.rings() {
                for w in r.windows(2) {
                    out.push((w[0], w[1]));
                }
            }
        }
        out
    }
}

/// Prepared form of a model geometry for repeated exact point location.
pub struct Located {
    pub pts: Vec<C>,
    pub lines: Vec<Vec<C>>,
    pub polys: Vec<Poly>,
    /// endpoints with odd incidence count (mod-2 boundary of the line work)
    pub line_boundary: Vec<C>,
}

impl Located {
    pub fn new(g: &G) -> Located {
        let (mut pts, mut lines, mut polys) = (vec![], vec![], vec![]);
        g.parts(&mut pts, &mut lines, &mut polys);
        let mut ends: Vec<C> = vec![];
        for l in &lines {
            if l.len() >= 2 {
                ends.push(l[0]);
                ends.push(*l.last().unwrap());
            }
        }
        ends.sort();
        let mut line_boundary = vec![];
        let mut i = 0;
        while i < ends.len() {
            let mut j = i;
            while j < ends.len() && ends[j] == ends[i] {
                j += 1;
            }
            if (j - i) % 2 == 1 {
                line_boundary.push(ends[i]);
            }
            i = j;
        }
        Located { pts, lines, polys, line_boundary }
    }

    pub fn locate(&self, p: HP) -> Loc {
        // areal parts first: interior of any polygon, else boundary of any
        let mut on_boundary = false;
        for po in &self.polys {
            match locate_poly(po, p) {
                Loc::I => return Loc::I,
                Loc::B => on_boundary = true,
                Loc::E => {}
            }
        }
        if on_boundary {
            return Loc::B;
        }
        // line work
        let mut on_line = false;
        for l in &self.lines {
            if l.len() == 1 {
                if p.eq_int(l[0]) {
                    on_line = true;
                }
                continue;
            }
            for w in l.windows(2) {
                if on_segment_hp(w[0], w[1], p) {
                    on_line = true;
                    break;
                }
            }
            if on_line {
                break;
            }
        }
        if on_line {
            if let Some(c) = p.is_int() {
                if self.line_boundary.contains(&c) {
                    return Loc::B;
                }
            }
            return Loc::I;
        }
        for c in &self.pts {
            if p.eq_int(*c) {
                return Loc::I;
            }
        }
        Loc::E
    }
}

/// crossing-number parity of a closed ring for a point NOT on the ring
fn ring_contains(ring: &[C], p: HP) -> bool {
    let mut inside = false;
    for w in ring.windows(2) {
        let (a, b) = (w[0], w[1]);
        let above_a = mul(a.1 as i128, p.w) > p.y;
        let above_b = mul(b.1 as i128, p.w) > p.y;
        if above_a != above_b {
            let s = orient_hp(a, b, p);
            if (b.1 > a.1 && s > 0) || (b.1 < a.1 && s < 0) {
                inside = !inside;
            }
        }
    }
    inside
}

fn on_ring(ring: &[C], p: HP) -> bool {
    if ring.len() == 1 {
        return p.eq_int(ring[0]);
    }
    ring.windows(2).any(|w| on_segment_hp(w[0], w[1], p))
}

pub fn locate_poly(po: &Poly, p: HP) -> Loc {
    if po.ext.is_empty() {
        return Loc::E;
    }
    if po.rings().any(|r| on_ring(r, p)) {
        return Loc::B;
    }
    if !ring_contains(&po.ext, p) {
        return Loc::E;
    }
    for h in &po.holes {
        if ring_contains(h, p) {
            return Loc::E;
        }
    }
    Loc::I
}

pub fn locate(g: &G, p: HP) -> Loc {
    Located::new(g).locate(p)
}
