//! DE-9IM by exhaustive cell decomposition of the joint arrangement.
//!
//! 0-cells: all segment endpoints, isolated points and pairwise intersection
//! points; 1-cells: open sub-segments between consecutive nodes on each
//! segment (represented by their midpoint); 2-cells: sampled by a trapezoid
//! sweep (one point in every gap between consecutive segments over every open
//! slab between consecutive node abscissae). Every cell representative is
//! located in both operands by definition; M[la][lb] = max cell dimension.
use super::*;
use std::collections::BTreeSet;

#[derive(Clone, Copy, PartialEq, Eq, Debug, Hash)]
pub struct Matrix(pub [[i8; 3]; 3]);

impl Matrix {
    pub fn empty() -> Matrix {
        Matrix([[-1; 3]; 3])
    }
    pub fn set_min(&mut self, a: Loc, b: Loc, d: i8) {
        let c = &mut self.0[a as usize][b as usize];
        if *c < d {
            *c = d;
        }
    }
    pub fn get(&self, a: Loc, b: Loc) -> i8 {
        self.0[a as usize][b as usize]
    }
    pub fn transpose(&self) -> Matrix {
        let mut m = Matrix::empty();
        for i in 0..3 {
            for j in 0..3 {
                m.0[j][i] = self.0[i][j];
            }
        }
        m
    }
    pub fn to_string9(&self) -> String {
        let mut s = String::new();
        for i in 0..3 {
            for j in 0..3 {
                s.push(match self.0[i][j] {
                    -1 => 'F',
                    0 => '0',
                    1 => '1',
                    _ => '2',
                });
            }
        }
        s
    }
    /// match against a DE-9IM mask such as "T*F**F***"
    pub fn matches(&self, mask: &str) -> bool {
        let m: Vec<char> = mask.chars().collect();
        assert_eq!(m.len(), 9);
        for i in 0..3 {
            for j in 0..3 {
                let v = self.0[i][j];
                let ok = match m[i * 3 + j] {
                    '*' => true,
                    'T' => v >= 0,
                    'F' => v < 0,
                    '0' => v == 0,
                    '1' => v == 1,
                    '2' => v == 2,
                    c => panic!("bad mask char {c}"),
                };
                if !ok {
                    return false;
                }
            }
        }
        true
    }
    pub fn intersects(&self) -> bool {
        !self.matches("FF*FF****")
    }
    pub fn contains(&self) -> bool {
        self.matches("T*****FF*")
    }
    pub fn within(&self) -> bool {
        self.matches("T*F**F***")
    }
}

/// Statistics of the arrangement, used for labels / non-triviality.
#[derive(Clone, Debug, Default)]
pub struct ArrInfo {
    pub nodes: usize,
    pub subsegs: usize,
    pub faces: usize,
    /// a node or sub-segment that belongs to both operands (neither locates Exterior)
    pub touching: bool,
    pub proper_crossing: bool,
    pub collinear_overlap: bool,
    pub shared_vertex: bool,
    pub vertex_on_edge: bool,
}

pub fn de9im(a: &G, b: &G) -> Matrix {
    de9im_info(a, b).0
}

pub fn de9im_info(a: &G, b: &G) -> (Matrix, ArrInfo) {
    let la = Located::new(a);
    let lb = Located::new(b);
    let mut info = ArrInfo::default();
    let mut m = Matrix::empty();
    m.set_min(Loc::E, Loc::E, 2);

    // segments of both operands; isolated points as zero-length segments
    let mut segs: Vec<(C, C, u8)> = vec![];
    for (g, tag) in [(a, 0u8), (b, 1u8)] {
        for (p, q) in g.segments() {
            segs.push((p, q, tag));
        }
        let (mut pts, mut ls, mut ps) = (vec![], vec![], vec![]);
        g.parts(&mut pts, &mut ls, &mut ps);
        for p in pts {
            segs.push((p, p, tag));
        }
        for l in ls {
            if l.len() == 1 {
                segs.push((l[0], l[0], tag));
            }
        }
    }

    // nodes
    let mut nodes: BTreeSet<HP> = BTreeSet::new();
    for s in &segs {
        nodes.insert(HP::int(s.0));
        nodes.insert(HP::int(s.1));
    }
    let va: BTreeSet<C> = a.coords().into_iter().collect();
    let vb: BTreeSet<C> = b.coords().into_iter().collect();
    if va.intersection(&vb).next().is_some() {
        info.shared_vertex = true;
    }
    for i in 0..segs.len() {
        for j in (i + 1)..segs.len() {
            let (s, t) = (segs[i], segs[j]);
            // cheap bbox rejection
            if s.0 .0.max(s.1 .0) < t.0 .0.min(t.1 .0)
                || t.0 .0.max(t.1 .0) < s.0 .0.min(s.1 .0)
                || s.0 .1.max(s.1 .1) < t.0 .1.min(t.1 .1)
                || t.0 .1.max(t.1 .1) < s.0 .1.min(s.1 .1)
            {
                continue;
            }
            match seg_intersection(s.0, s.1, t.0, t.1) {
                SegInt::None => {}
                SegInt::Point(p) => {
                    if s.2 != t.2 {
                        let at_s_end = p.eq_int(s.0) || p.eq_int(s.1);
                        let at_t_end = p.eq_int(t.0) || p.eq_int(t.1);
                        if !at_s_end && !at_t_end {
                            info.proper_crossing = true;
                        } else if at_s_end != at_t_end {
                            info.vertex_on_edge = true;
                        }
                    }
                    nodes.insert(p);
                }
                SegInt::Overlap(..) => {
                    if s.2 != t.2 {
                        info.collinear_overlap = true;
                    }
                }
            }
        }
    }
    info.nodes = nodes.len();

    // 0-cells
    for &n in &nodes {
        let (x, y) = (la.locate(n), lb.locate(n));
        m.set_min(x, y, 0);
        if x != Loc::E && y != Loc::E {
            info.touching = true;
        }
    }

    // 1-cells
    let node_vec: Vec<HP> = nodes.iter().cloned().collect();
    for s in &segs {
        if s.0 == s.1 {
            continue;
        }
        let mut on: Vec<HP> = node_vec
            .iter()
            .cloned()
            .filter(|n| {
                // bbox prefilter in scaled integers
                on_segment_hp(s.0, s.1, *n)
            })
            .collect();
        // order along the segment by the projection (p-a).(b-a) / w
        let (ax, ay) = (s.0 .0 as i128, s.0 .1 as i128);
        let (dx, dy) = (s.1 .0 as i128 - ax, s.1 .1 as i128 - ay);
        let proj = |p: &HP| -> Rat {
            let num = add(mul(sub(p.x, mul(ax, p.w)), dx), mul(sub(p.y, mul(ay, p.w)), dy));
            Rat::new(num, p.w)
        };
        on.sort_by(|p, q| proj(p).cmp(&proj(q)));
        for w in on.windows(2) {
            if w[0] == w[1] {
                continue;
            }
            let mid = HP::mid_hp(w[0], w[1]);
            let (x, y) = (la.locate(mid), lb.locate(mid));
            m.set_min(x, y, 1);
            info.subsegs += 1;
            if x != Loc::E && y != Loc::E {
                info.touching = true;
            }
        }
    }

    // 2-cells: trapezoid sampling
    let mut xs: Vec<Rat> = node_vec.iter().map(|n| n.xr()).collect();
    xs.sort();
    xs.dedup();
    for w in xs.windows(2) {
        let xm = simplest_dyadic_between(w[0], w[1]);
        // ordinates of all non-vertical segments spanning xm
        let mut ys: Vec<Rat> = vec![];
        for s in &segs {
            let (p, q) = if s.0 .0 <= s.1 .0 { (s.0, s.1) } else { (s.1, s.0) };
            if p.0 == q.0 {
                continue;
            }
            let (x0, x1) = (Rat::int(p.0 as i128), Rat::int(q.0 as i128));
            if !(x0 < xm && xm < x1) {
                continue;
            }
            // y = py + (qy-py) (xm-px)/(qx-px)
            let t = xm.sub(x0).div(x1.sub(x0));
            let y = Rat::int(p.1 as i128).add(Rat::int((q.1 - p.1) as i128).mul(t));
            ys.push(y);
        }
        ys.sort();
        ys.dedup();
        let mut samples: Vec<Rat> = vec![];
        if let (Some(lo), Some(hi)) = (ys.first(), ys.last()) {
            samples.push(Rat::int(lo.floor() - 1));
            samples.push(Rat::int(hi.floor() + 2));
            for g in ys.windows(2) {
                samples.push(simplest_dyadic_between(g[0], g[1]));
            }
        }
        for y in samples {
            // common denominator
            let p = HP::new(mul(xm.n, y.d), mul(y.n, xm.d), mul(xm.d, y.d));
            let (x, yy) = (la.locate(p), lb.locate(p));
            debug_assert!(x != Loc::B && yy != Loc::B);
            m.set_min(x, yy, 2);
            info.faces += 1;
        }
    }
    (m, info)
}
