//! Self-tests of the reference model (run with `cargo test --release` in /verif/harness,
//! and as the `oracle-selftest` sub-command): internal consistency relations that hold for
//! the true DE-9IM whatever the implementation, evaluated on generated scenes.
use super::de9im::de9im;
use super::*;
use crate::gen::{pair_strategy, Pair};

fn d4(c: C, k: u8) -> C {
    let (x, y) = c;
    match k % 8 {
        0 => (x, y),
        1 => (-y, x),
        2 => (-x, -y),
        3 => (y, -x),
        4 => (-x, y),
        5 => (x, -y),
        6 => (y, x),
        _ => (-y, -x),
    }
}

/// returns the number of relations checked; panics with a description on the first inconsistency
pub fn run(n: usize, seed: u64) -> usize {
    let strat = proptest::strategy::Strategy::boxed(pair_strategy());
    let pairs: Vec<Pair> = crate::engine::sample_strategy(&strat, n, seed);
    let mut checks = 0;
    for (i, Pair { a, b }) in pairs.iter().enumerate() {
        let m = de9im(a, b);
        // transpose symmetry
        assert_eq!(de9im(b, a), m.transpose(), "transpose: {:?} {:?}", a, b);
        // invariance under the eight lattice symmetries and an integer translation
        let k = (i % 8) as u8;
        let f = |c: C| { let q = d4(c, k); (q.0 + 17, q.1 - 5) };
        let rect_ok = |g: &G| !matches!(g, G::Rect(..));
        if rect_ok(a) && rect_ok(b) || k % 8 < 8 {
            assert_eq!(de9im(&a.map_coords(&f), &b.map_coords(&f)), m, "symmetry {k}: {:?} {:?}", a, b);
        }
        // a geometry relates to itself as "equals": II and BB as its own dimensions, nothing in the other's exterior
        let s = de9im(a, a);
        if !a.is_empty() {
            assert!(s.get(Loc::I, Loc::E) < 0 && s.get(Loc::E, Loc::I) < 0 && s.get(Loc::B, Loc::E) < 0 && s.get(Loc::E, Loc::B) < 0, "self: {:?} {}", a, s.to_string9());
            assert_eq!(s.get(Loc::I, Loc::I) as i32, a.dim(), "self II: {:?}", a);
        }
        // locate agrees with the matrix of (geometry, point) at every vertex of the other operand
        let la = Located::new(a);
        for v in b.coords().into_iter().take(6) {
            let mp = de9im(a, &G::Point(v));
            let loc = la.locate(HP::int(v));
            let want_cell = match loc { Loc::I => (Loc::I, Loc::I), Loc::B => (Loc::B, Loc::I), Loc::E => (Loc::E, Loc::I) };
            assert_eq!(mp.get(want_cell.0, want_cell.1), 0, "locate vs matrix: {:?} at {:?}: {:?} {}", a, v, loc, mp.to_string9());
            checks += 1;
        }
        // exterior/exterior is always 2; dimensions never exceed the operands'
        assert_eq!(m.get(Loc::E, Loc::E), 2);
        for x in [Loc::I, Loc::B] {
            for y in [Loc::I, Loc::B, Loc::E] {
                assert!((m.get(x, y) as i32) <= a.dim().max(-1), "row dim: {:?} {:?} {}", a, b, m.to_string9());
                assert!((m.get(y, x) as i32) <= b.dim().max(-1), "col dim: {:?} {:?} {}", a, b, m.to_string9());
            }
        }
        // mask algebra: within(a,b) == contains(b,a); disjoint == !intersects; equal point sets => both within
        assert_eq!(m.within(), m.transpose().contains());
        checks += 6;
    }
    checks
}

#[cfg(test)]
mod tests {
    #[test]
    fn oracle_is_self_consistent() {
        let n = super::run(20_000, 7);
        assert!(n > 100_000);
    }

    #[test]
    fn hand_computed_matrices() {
        use super::*;
        let sq = |x0: i64, y0: i64, s: i64| G::Polygon(Poly::new(vec![(x0, y0), (x0 + s, y0), (x0 + s, y0 + s), (x0, y0 + s), (x0, y0)], vec![]));
        // two squares sharing an edge: boundaries meet in a line, interiors disjoint
        assert_eq!(de9im(&sq(0, 0, 2), &sq(2, 0, 2)).to_string9(), "FF2F11212");
        // overlapping squares
        assert_eq!(de9im(&sq(0, 0, 2), &sq(1, 1, 2)).to_string9(), "212101212");
        // square inside square
        assert_eq!(de9im(&sq(0, 0, 6), &sq(2, 2, 2)).to_string9(), "212FF1FF2");
        // point on a polygon vertex, on an edge, inside
        assert_eq!(de9im(&sq(0, 0, 2), &G::Point((0, 0))).to_string9(), "FF20F1FF2");
        assert_eq!(de9im(&sq(0, 0, 2), &G::Point((1, 1))).to_string9(), "0F2FF1FF2");
        // line crossing a square
        assert_eq!(de9im(&sq(0, 0, 2), &G::Line((-1, 1), (3, 1))).to_string9(), "1F20F1102");
        // two open line strings chained into a loop: no boundary (mod-2)
        let lp = G::MultiLineString(vec![vec![(0, 0), (2, 0), (2, 2)], vec![(2, 2), (0, 2), (0, 0)]]);
        assert_eq!(de9im(&lp, &G::Point((0, 0))).to_string9(), "0F1FFFFF2");
        // three line strings meeting in a point: that point is on the boundary (odd)
        let star = G::MultiLineString(vec![vec![(0, 0), (2, 0)], vec![(0, 0), (0, 2)], vec![(0, 0), (-2, -2)]]);
        assert_eq!(de9im(&star, &G::Point((0, 0))).to_string9(), "FF10F0FF2");
        // polygon with a hole touching the shell; a point inside the hole is outside
        let ph = G::Polygon(Poly::new(vec![(0, 0), (6, 0), (6, 6), (0, 6), (0, 0)], vec![vec![(0, 3), (2, 2), (2, 4), (0, 3)]]));
        assert_eq!(de9im(&ph, &G::Point((1, 3))).to_string9(), "FF2FF10F2");
        assert!(validity::in_relate_domain(&ph));
    }
}
