//! Exact measures on the lattice: twice-area, hull, squared distances.
use super::*;

/// twice the signed shoelace area of a closed ring
pub fn twice_area_ring(r: &[C]) -> i128 {
    let mut s = 0i128;
    for w in r.windows(2) {
        s += w[0].0 as i128 * w[1].1 as i128 - w[1].0 as i128 * w[0].1 as i128;
    }
    s
}

/// twice the (unsigned) area of a polygon: |shell| - sum |holes|
pub fn twice_area_poly(p: &Poly) -> i128 {
    let mut a = twice_area_ring(&p.ext).abs();
    for h in &p.holes {
        a -= twice_area_ring(h).abs();
    }
    a
}

/// strict convex hull (no collinear vertices), counter-clockwise, not closed;
/// for fewer than 3 non-collinear points returns the distinct extreme points.
pub fn hull(pts: &[C]) -> Vec<C> {
    let mut p: Vec<C> = pts.to_vec();
    p.sort();
    p.dedup();
    if p.len() < 3 {
        return p;
    }
    let mut lower: Vec<C> = vec![];
    for &c in &p {
        while lower.len() >= 2 && cross_int(lower[lower.len() - 2], lower[lower.len() - 1], c) <= 0 {
            lower.pop();
        }
        lower.push(c);
    }
    let mut upper: Vec<C> = vec![];
    for &c in p.iter().rev() {
        while upper.len() >= 2 && cross_int(upper[upper.len() - 2], upper[upper.len() - 1], c) <= 0 {
            upper.pop();
        }
        upper.push(c);
    }
    lower.pop();
    upper.pop();
    lower.extend(upper);
    lower
}

/// exact squared distance from point p to closed segment [a,b] as a rational
pub fn dist2_point_seg(p: C, a: C, b: C) -> Rat {
    let (px, py) = (p.0 as i128, p.1 as i128);
    let (ax, ay) = (a.0 as i128, a.1 as i128);
    let (bx, by) = (b.0 as i128, b.1 as i128);
    let (dx, dy) = (bx - ax, by - ay);
    let len2 = dx * dx + dy * dy;
    if len2 == 0 {
        return Rat::int((px - ax) * (px - ax) + (py - ay) * (py - ay));
    }
    let t = (px - ax) * dx + (py - ay) * dy;
    if t <= 0 {
        Rat::int((px - ax) * (px - ax) + (py - ay) * (py - ay))
    } else if t >= len2 {
        Rat::int((px - bx) * (px - bx) + (py - by) * (py - by))
    } else {
        let cr = dx * (py - ay) - dy * (px - ax);
        Rat::new(cr * cr, len2)
    }
}

/// exact squared distance between closed segments (0 if they intersect)
pub fn dist2_seg_seg(a: C, b: C, c: C, d: C) -> Rat {
    if seg_intersection(a, b, c, d) != SegInt::None {
        return Rat::int(0);
    }
    dist2_point_seg(a, c, d)
        .min(dist2_point_seg(b, c, d))
        .min(dist2_point_seg(c, a, b))
        .min(dist2_point_seg(d, a, b))
}
