//! Third opinion for the DE-9IM oracle: the JTS `TestRelate*.xml` expectations shipped with the
//! repository (integer coordinates), parsed with a minimal WKT reader.
use super::*;

fn parse_coords(s: &str) -> Option<Vec<C>> {
    let mut out = vec![];
    for pair in s.split(',') {
        let mut it = pair.split_whitespace();
        let x: f64 = it.next()?.parse().ok()?;
        let y: f64 = it.next()?.parse().ok()?;
        if x.fract() != 0.0 || y.fract() != 0.0 {
            return None;
        }
        out.push((x as i64, y as i64));
    }
    Some(out)
}

/// split "(...),(...),(...)" at top level into the inner strings
fn split_groups(s: &str) -> Vec<String> {
    let mut out = vec![];
    let mut depth = 0;
    let mut cur = String::new();
    for ch in s.chars() {
        match ch {
            '(' => {
                if depth > 0 {
                    cur.push(ch);
                }
                depth += 1;
            }
            ')' => {
                depth -= 1;
                if depth > 0 {
                    cur.push(ch);
                } else {
                    out.push(std::mem::take(&mut cur));
                }
            }
            ',' if depth == 0 => {}
            _ => {
                if depth > 0 {
                    cur.push(ch)
                }
            }
        }
    }
    out
}

pub fn parse_wkt(w: &str) -> Option<G> {
    let w = w.trim();
    let up = w.to_uppercase();
    let body = |kw: &str| -> Option<String> {
        let rest = w[kw.len()..].trim();
        if rest.to_uppercase().starts_with("EMPTY") {
            return Some(String::new());
        }
        let a = rest.find('(')?;
        let b = rest.rfind(')')?;
        Some(rest[a + 1..b].to_string())
    };
    let poly = |s: &str| -> Option<Poly> {
        let rings: Vec<Vec<C>> = split_groups(s).iter().map(|r| parse_coords(r)).collect::<Option<Vec<_>>>()?;
        let mut it = rings.into_iter();
        let ext = it.next().unwrap_or_default();
        Some(Poly { ext, holes: it.collect() })
    };
    if up.starts_with("MULTIPOINT") {
        let b = body("MULTIPOINT")?;
        if b.is_empty() {
            return Some(G::MultiPoint(vec![]));
        }
        let flat = b.replace(['(', ')'], "");
        return Some(G::MultiPoint(parse_coords(&flat)?));
    }
    if up.starts_with("MULTILINESTRING") {
        let b = body("MULTILINESTRING")?;
        return Some(G::MultiLineString(split_groups(&b).iter().map(|l| parse_coords(l)).collect::<Option<Vec<_>>>()?));
    }
    if up.starts_with("MULTIPOLYGON") {
        let b = body("MULTIPOLYGON")?;
        return Some(G::MultiPolygon(split_groups(&b).iter().map(|p| poly(p)).collect::<Option<Vec<_>>>()?));
    }
    if up.starts_with("POINT") {
        let b = body("POINT")?;
        return Some(G::Point(*parse_coords(&b)?.first()?));
    }
    if up.starts_with("LINESTRING") {
        let b = body("LINESTRING")?;
        return Some(G::LineString(if b.is_empty() { vec![] } else { parse_coords(&b)? }));
    }
    if up.starts_with("POLYGON") {
        let b = body("POLYGON")?;
        return Some(G::Polygon(poly(&b)?));
    }
    None
}

/// (file, description, a, b, expected matrix string)
pub fn load_cases(dir: &std::path::Path) -> Vec<(String, String, G, G, String)> {
    let mut out = vec![];
    let Ok(rd) = std::fs::read_dir(dir) else { return out };
    let mut files: Vec<_> = rd.filter_map(|e| e.ok().map(|e| e.path())).filter(|p| p.file_name().map(|n| n.to_string_lossy().starts_with("TestRelate")).unwrap_or(false)).collect();
    files.sort();
    for f in files {
        let Ok(txt) = std::fs::read_to_string(&f) else { continue };
        for case in txt.split("<case>").skip(1) {
            let tag = |t: &str| -> Option<String> {
                let a = case.find(&format!("<{t}>"))? + t.len() + 2;
                let b = case.find(&format!("</{t}>"))?;
                Some(case[a..b].trim().to_string())
            };
            let (Some(a), Some(b)) = (tag("a"), tag("b")) else { continue };
            let desc = tag("desc").unwrap_or_default();
            let (Some(ga), Some(gb)) = (parse_wkt(&a), parse_wkt(&b)) else { continue };
            for op in case.split("<op ").skip(1) {
                if !op.starts_with("name=\"relate\"") {
                    continue;
                }
                let Some(i) = op.find("arg3=\"") else { continue };
                let m = &op[i + 6..i + 15];
                let truth = op.contains("true");
                if truth && op.contains("arg1=\"A\"") {
                    out.push((f.file_name().unwrap().to_string_lossy().to_string(), desc.clone(), ga.clone(), gb.clone(), m.to_string()));
                }
            }
        }
    }
    out
}

#[cfg(test)]
mod tests {
    use super::*;
    #[test]
    fn oracle_agrees_with_jts_relate_files() {
        let cases = load_cases(std::path::Path::new("/repo/jts-test-runner/resources/testxml/general"));
        assert!(cases.len() >= 40, "only {} cases parsed", cases.len());
        let mut bad = vec![];
        for (f, d, a, b, want) in &cases {
            let got = de9im::de9im(a, b).to_string9();
            if &got != want {
                bad.push(format!("{f}: {d}: oracle {got} JTS {want}; A={} B={}", crate::conv::wkt(a), crate::conv::wkt(b)));
            }
        }
        eprintln!("{} JTS relate cases, {} disagreements", cases.len(), bad.len());
        for b in &bad {
            eprintln!("  {b}");
        }
        assert!(bad.is_empty());
    }
}

/// (file, description, geometry, expected validity) from the JTS TestValid*.xml files (integer coordinates only)
pub fn load_valid_cases(dir: &std::path::Path) -> Vec<(String, String, G, bool)> {
    let mut out = vec![];
    for name in ["TestValid.xml", "TestValid2.xml"] {
        let Ok(txt) = std::fs::read_to_string(dir.join(name)) else { continue };
        for case in txt.split("<case>").skip(1) {
            let tag = |t: &str| -> Option<String> {
                let a = case.find(&format!("<{t}>"))? + t.len() + 2;
                let b = case.find(&format!("</{t}>"))?;
                Some(case[a..b].trim().to_string())
            };
            let Some(a) = tag("a") else { continue };
            let Some(g) = parse_wkt(&a) else { continue };
            let desc = tag("desc").unwrap_or_default();
            for op in case.split("<op ").skip(1) {
                if op.starts_with("name=\"isValid\"") {
                    let body = &op[op.find('>').map(|i| i + 1).unwrap_or(0)..];
                    let want = body.trim_start().starts_with("true");
                    out.push((name.to_string(), desc.clone(), g.clone(), want));
                }
            }
        }
    }
    out
}

#[cfg(test)]
mod valid_tests {
    use super::*;
    use crate::refgeom::validity::{mpoly_report, poly_report};
    #[test]
    fn validity_model_agrees_with_jts_valid_files() {
        let cases = load_valid_cases(std::path::Path::new("/repo/jts-test-runner/resources/testxml/general"));
        let mut n = 0;
        let mut bad = vec![];
        for (f, d, g, want) in &cases {
            let got = match g {
                G::Polygon(p) => {
                    if p.is_empty() { continue }
                    poly_report(p).valid_ogc()
                }
                G::MultiPolygon(v) => {
                    if v.iter().all(|p| p.is_empty()) { continue }
                    v.iter().all(|p| poly_report(p).valid_ogc()) && mpoly_report(v).valid()
                }
                _ => continue,
            };
            n += 1;
            if got != *want {
                bad.push(format!("{f}: {d}: model {got} JTS {want}: {}", crate::conv::wkt(g)));
            }
        }
        eprintln!("{n} JTS validity cases (polygonal, integer coordinates), {} disagreements", bad.len());
        for b in &bad {
            eprintln!("  {}", &b[..b.len().min(400)]);
        }
        assert!(n >= 50, "only {n} cases");
        assert!(bad.is_empty());
    }
}
