//! Exact trapezoid decomposition of the joint arrangement of several
//! geometries: every 2-cell piece with its exact area and a sample point.
//! Used for exact areas of Boolean combinations (C04), tiling coverage counts
//! (C10) and inside/outside lengths of line work against polygons (C04 clip).
use super::*;
use std::collections::BTreeSet;

#[derive(Clone, Debug)]
pub struct Trap {
    /// interior sample point (slab mid abscissa, mid ordinate between the bounding segments)
    pub sample: HP,
    /// exact area of the trapezoid
    pub area: Rat,
}

/// All bounded trapezoids of the arrangement of `segs` (closed integer segments).
/// Within an open slab between consecutive node abscissae no two segments cross,
/// so consecutive segments (ordered at the slab's mid abscissa) bound a trapezoid
/// whose area is width x (ordinate difference at the mid abscissa), exactly.
pub fn trapezoids(segs: &[(C, C)]) -> Vec<Trap> {
    let mut nodes: BTreeSet<HP> = BTreeSet::new();
    for s in segs {
        nodes.insert(HP::int(s.0));
        nodes.insert(HP::int(s.1));
    }
    for i in 0..segs.len() {
        for j in (i + 1)..segs.len() {
            let (s, t) = (segs[i], segs[j]);
            if s.0 .0.max(s.1 .0) < t.0 .0.min(t.1 .0)
                || t.0 .0.max(t.1 .0) < s.0 .0.min(s.1 .0)
                || s.0 .1.max(s.1 .1) < t.0 .1.min(t.1 .1)
                || t.0 .1.max(t.1 .1) < s.0 .1.min(s.1 .1)
            {
                continue;
            }
            if let SegInt::Point(p) = seg_intersection(s.0, s.1, t.0, t.1) {
                nodes.insert(p);
            }
        }
    }
    let mut xs: Vec<Rat> = nodes.iter().map(|n| n.xr()).collect();
    xs.sort();
    xs.dedup();
    let mut out = vec![];
    for w in xs.windows(2) {
        let width = w[1].sub(w[0]);
        let xm = w[0].add(w[1]).div(Rat::int(2));
        let mut ys: Vec<Rat> = vec![];
        for s in segs {
            let (p, q) = if s.0 .0 <= s.1 .0 { (s.0, s.1) } else { (s.1, s.0) };
            if p.0 == q.0 {
                continue;
            }
            let (x0, x1) = (Rat::int(p.0 as i128), Rat::int(q.0 as i128));
            if !(x0 < xm && xm < x1) {
                continue;
            }
            let t = xm.sub(x0).div(x1.sub(x0));
            ys.push(Rat::int(p.1 as i128).add(Rat::int((q.1 - p.1) as i128).mul(t)));
        }
        ys.sort();
        ys.dedup();
        for g in ys.windows(2) {
            let ym = g[0].add(g[1]).div(Rat::int(2));
            let sample = HP::new(mul(xm.n, ym.d), mul(ym.n, xm.d), mul(xm.d, ym.d));
            out.push(Trap { sample, area: width.mul(g[1].sub(g[0])) });
        }
    }
    out
}

/// Exact area of the set { p : pred(locations of p in each geometry) } over the
/// arrangement of all the geometries' segments.
pub fn area_where(geoms: &[&G], pred: &dyn Fn(&[bool]) -> bool) -> Rat {
    let mut segs = vec![];
    for g in geoms {
        segs.extend(g.segments().into_iter().filter(|s| s.0 != s.1));
    }
    let locs: Vec<Located> = geoms.iter().map(|g| Located::new(g)).collect();
    let mut total = Rat::int(0);
    for t in trapezoids(&segs) {
        let inside: Vec<bool> = locs.iter().map(|l| l.locate(t.sample) == Loc::I).collect();
        if pred(&inside) {
            total = total.add(t.area);
        }
    }
    total
}

/// Split the line work `lines` at all intersections with the segments of `g` and
/// return (length^2-free) pieces as (start, end, location of the midpoint in g).
/// Lengths are returned as f64 (sqrt of exact rational squared lengths).
pub fn line_pieces(lines: &[Vec<C>], g: &G) -> Vec<(HP, HP, Loc, f64)> {
    let gsegs: Vec<(C, C)> = g.segments().into_iter().filter(|s| s.0 != s.1).collect();
    let loc = Located::new(g);
    let mut out = vec![];
    for l in lines {
        for w in l.windows(2) {
            let (a, b) = (w[0], w[1]);
            if a == b {
                continue;
            }
            let mut cuts: Vec<HP> = vec![HP::int(a), HP::int(b)];
            for s in &gsegs {
                match seg_intersection(a, b, s.0, s.1) {
                    SegInt::None => {}
                    SegInt::Point(p) => cuts.push(p),
                    SegInt::Overlap(p, q) => {
                        cuts.push(HP::int(p));
                        cuts.push(HP::int(q));
                    }
                }
            }
            let (ax, ay) = (a.0 as i128, a.1 as i128);
            let (dx, dy) = (b.0 as i128 - ax, b.1 as i128 - ay);
            let proj = |p: &HP| -> Rat { Rat::new(add(mul(sub(p.x, mul(ax, p.w)), dx), mul(sub(p.y, mul(ay, p.w)), dy)), p.w) };
            cuts.sort_by(|p, q| proj(p).cmp(&proj(q)));
            cuts.dedup();
            let len2 = (dx * dx + dy * dy) as f64;
            for c in cuts.windows(2) {
                let mid = HP::mid_hp(c[0], c[1]);
                // fraction of the segment covered by this piece: (proj1 - proj0) / len2
                let f = proj(&c[1]).sub(proj(&c[0])).to_f64() / len2;
                out.push((c[0], c[1], loc.locate(mid), f * len2.sqrt()));
            }
        }
    }
    out
}
