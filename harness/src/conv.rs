//! Model → geo types, exact similarity transforms, representation variants,
//! and dispatch macros from the `Geometry` enum to the concrete types.
use crate::exact::C;
use crate::refgeom::{rect_ring, tri_ring, Matrix, Poly, G};
use geo::coordinate_position::CoordPos;
use geo::dimensions::Dimensions;
use geo::relate::IntersectionMatrix;
use geo::{
    Coord, Geometry, GeometryCollection, Line, LineString, MultiLineString, MultiPoint, MultiPolygon, Point, Polygon,
    Rect, Triangle,
};
use serde::{Deserialize, Serialize};

/// Exact similarity map: c ↦ (d4(c) + (tx,ty)) · 2^k.
/// All images of lattice coordinates are exactly representable f64 values as
/// long as |c + t| < 2^53 (guaranteed by the generators: |t| ≤ 2^40).
#[derive(Clone, Copy, Debug, PartialEq, Eq, Serialize, Deserialize)]
pub struct Xf {
    pub d4: u8,
    pub k: i8,
    pub tx: i64,
    pub ty: i64,
}

impl Xf {
    pub const ID: Xf = Xf { d4: 0, k: 0, tx: 0, ty: 0 };
    pub fn is_identity(&self) -> bool {
        *self == Xf::ID
    }
    pub fn d4(&self, c: C) -> C {
        let (x, y) = c;
        match self.d4 % 8 {
            0 => (x, y),
            1 => (-y, x),
            2 => (-x, -y),
            3 => (y, -x),
            4 => (-x, y),
            5 => (x, -y),
            6 => (y, x),
            _ => (-y, -x),
        }
    }
    /// does the linear part reverse orientation?
    pub fn reflects(&self) -> bool {
        self.d4 % 8 >= 4
    }
    pub fn scale(&self) -> f64 {
        2f64.powi(self.k as i32)
    }
    pub fn apply(&self, c: C) -> Coord<f64> {
        let (x, y) = self.d4(c);
        let s = self.scale();
        Coord { x: (x + self.tx) as f64 * s, y: (y + self.ty) as f64 * s }
    }
    /// apply to a rational point given as f64 pair (exact for dyadic input of
    /// small denominator; used only for query points on the half lattice)
    pub fn apply_f(&self, x: f64, y: f64) -> Coord<f64> {
        let (x, y) = match self.d4 % 8 {
            0 => (x, y),
            1 => (-y, x),
            2 => (-x, -y),
            3 => (y, -x),
            4 => (-x, y),
            5 => (x, -y),
            6 => (y, x),
            _ => (-y, -x),
        };
        let s = self.scale();
        Coord { x: (x + self.tx as f64) * s, y: (y + self.ty as f64) * s }
    }
    pub fn label(&self) -> String {
        let mag = self.tx.unsigned_abs().max(self.ty.unsigned_abs());
        let tb = if mag == 0 {
            "t0"
        } else if mag < (1 << 10) {
            "t<2^10"
        } else if mag < (1 << 27) {
            "t<2^27"
        } else {
            "t>=2^27"
        };
        format!("xf:d4={},k{},{}", self.d4 % 8, if self.k == 0 { "=0" } else if self.k > 0 { ">0" } else { "<0" }, tb)
    }
}

fn ls(v: &[C], t: &Xf) -> LineString<f64> {
    LineString::new(v.iter().map(|c| t.apply(*c)).collect())
}
fn poly(p: &Poly, t: &Xf) -> Polygon<f64> {
    Polygon::new(ls(&p.ext, t), p.holes.iter().map(|h| ls(h, t)).collect())
}

/// Model geometry → geo geometry (as the enum; use `with_concrete!` to reach the concrete type).
pub fn to_geo(g: &G, t: &Xf) -> Geometry<f64> {
    match g {
        G::Point(c) => Geometry::Point(Point(t.apply(*c))),
        G::Line(a, b) => Geometry::Line(Line::new(t.apply(*a), t.apply(*b))),
        G::LineString(v) => Geometry::LineString(ls(v, t)),
        G::Polygon(p) => Geometry::Polygon(poly(p, t)),
        G::MultiPoint(v) => Geometry::MultiPoint(MultiPoint::new(v.iter().map(|c| Point(t.apply(*c))).collect())),
        G::MultiLineString(v) => Geometry::MultiLineString(MultiLineString::new(v.iter().map(|l| ls(l, t)).collect())),
        G::MultiPolygon(v) => Geometry::MultiPolygon(MultiPolygon::new(v.iter().map(|p| poly(p, t)).collect())),
        G::Rect(a, b) => Geometry::Rect(Rect::new(t.apply(*a), t.apply(*b))),
        G::Triangle(a, b, c) => Geometry::Triangle(Triangle(t.apply(*a), t.apply(*b), t.apply(*c))),
        G::Coll(v) => Geometry::GeometryCollection(GeometryCollection::new_from(v.iter().map(|g| to_geo(g, t)).collect())),
    }
}

pub fn matrix_of(im: &IntersectionMatrix) -> Matrix {
    let pos = [CoordPos::Inside, CoordPos::OnBoundary, CoordPos::Outside];
    let mut m = Matrix::empty();
    for i in 0..3 {
        for j in 0..3 {
            m.0[i][j] = match im.get(pos[i], pos[j]) {
                Dimensions::Empty => -1,
                Dimensions::ZeroDimensional => 0,
                Dimensions::OneDimensional => 1,
                Dimensions::TwoDimensional => 2,
            };
        }
    }
    m
}

// ---------------------------------------------------------------------------
// representation variants (same point set, written differently)

fn rot_ring(r: &[C], by: usize, rev: bool) -> Vec<C> {
    if r.len() < 2 {
        return r.to_vec();
    }
    let n = r.len() - 1; // closed ring: drop closing coord
    let mut open: Vec<C> = r[..n].to_vec();
    open.rotate_left(by % n);
    if rev {
        open.reverse();
    }
    let f = open[0];
    open.push(f);
    open
}

fn vary_poly(p: &Poly, sel: u64) -> Poly {
    let mut s = sel;
    let mut next = |m: u64| {
        s = crate::engine::splitmix64(s);
        s % m
    };
    let ext = rot_ring(&p.ext, next(16) as usize, next(2) == 1);
    let holes = p.holes.iter().map(|h| rot_ring(h, next(16) as usize, next(2) == 1)).collect();
    Poly { ext, holes }
}

/// The polygon as a Rect or a Triangle when it is one (no holes; collinear vertices on its sides ignored), else itself:
/// the same point set through another geometry type.
pub fn as_simple_type(p: &Poly) -> G {
    if !p.holes.is_empty() || p.ext.len() < 4 {
        return G::Polygon(p.clone());
    }
    let open = &p.ext[..p.ext.len() - 1];
    let n = open.len();
    // corners = vertices where the ring turns
    let corners: Vec<C> = (0..n)
        .filter(|i| {
            let (a, b, c) = (open[(i + n - 1) % n], open[*i], open[(i + 1) % n]);
            (b.0 - a.0) * (c.1 - b.1) - (b.1 - a.1) * (c.0 - b.0) != 0
        })
        .map(|i| open[i])
        .collect();
    match corners.len() {
        3 => G::Triangle(corners[0], corners[1], corners[2]),
        4 => {
            let (x0, x1) = (corners.iter().map(|c| c.0).min().unwrap(), corners.iter().map(|c| c.0).max().unwrap());
            let (y0, y1) = (corners.iter().map(|c| c.1).min().unwrap(), corners.iter().map(|c| c.1).max().unwrap());
            if corners.iter().all(|c| (c.0 == x0 || c.0 == x1) && (c.1 == y0 || c.1 == y1)) {
                G::Rect((x0, y0), (x1, y1))
            } else {
                G::Polygon(p.clone())
            }
        }
        _ => G::Polygon(p.clone()),
    }
}

/// The `sel`-th re-representation of `g` (deterministic in `sel`): ring start
/// and direction changed, Rect/Triangle as Polygon, Line as LineString,
/// singleton Multi*, one-member collection. Always the same point set.
pub fn variant(g: &G, sel: u64) -> G {
    let which = sel % 4;
    let sub = crate::engine::splitmix64(sel);
    match g {
        G::Point(c) => match which {
            0 | 1 => G::MultiPoint(vec![*c]),
            2 => G::MultiPoint(vec![*c, *c]),
            _ => G::Coll(vec![g.clone()]),
        },
        G::Line(a, b) => match which {
            0 => G::LineString(vec![*a, *b]),
            1 => G::Line(*b, *a),
            2 => G::MultiLineString(vec![vec![*b, *a]]),
            _ => G::Coll(vec![g.clone()]),
        },
        G::LineString(v) => match which {
            0 => G::MultiLineString(vec![v.clone()]),
            1 => {
                let mut r = v.clone();
                r.reverse();
                G::LineString(r)
            }
            2 if v.len() == 2 => G::Line(v[0], v[1]),
            // a closed line string may start at any of its vertices, in either direction
            2 | 3 if v.len() >= 4 && v.first() == v.last() => G::LineString(rot_ring(v, (sub % 64) as usize, sub & 64 != 0)),
            _ => G::Coll(vec![g.clone()]),
        },
        G::Polygon(p) => match which {
            0 => G::Polygon(vary_poly(p, sub)),
            1 => G::MultiPolygon(vec![vary_poly(p, sub)]),
            2 => G::MultiPolygon(vec![p.clone()]),
            _ => G::Coll(vec![if sub & 1 == 0 { as_simple_type(p) } else { G::Polygon(vary_poly(p, sub)) }]),
        },
        G::MultiPoint(v) => match which {
            0 if v.len() == 1 => G::Point(v[0]),
            1 => {
                let mut r = v.clone();
                r.reverse();
                G::MultiPoint(r)
            }
            2 => G::Coll(v.iter().map(|c| G::Point(*c)).collect()),
            _ => G::Coll(vec![g.clone()]),
        },
        G::MultiLineString(v) => match which {
            0 if v.len() == 1 => G::LineString(v[0].clone()),
            1 => {
                let mut r = v.clone();
                r.reverse();
                for (i, l) in r.iter_mut().enumerate() {
                    if (sub >> i) & 1 == 1 {
                        l.reverse();
                    }
                }
                G::MultiLineString(r)
            }
            _ => G::Coll(vec![g.clone()]),
        },
        G::MultiPolygon(v) => match which {
            0 if v.len() == 1 => G::Polygon(v[0].clone()),
            1 => {
                let mut r: Vec<Poly> = v.iter().enumerate().map(|(i, p)| vary_poly(p, sub ^ i as u64)).collect();
                r.reverse();
                G::MultiPolygon(r)
            }
            // members as Rect / Triangle where they are one (a collection of different areal types)
            2 => G::Coll(v.iter().enumerate().map(|(i, p)| if (sub >> i) & 1 == 0 { as_simple_type(p) } else { G::Polygon(p.clone()) }).collect()),
            _ => G::Coll(vec![g.clone()]),
        },
        G::Rect(a, b) => match which {
            0 => G::Polygon(Poly::new(rect_ring(*a, *b), vec![])),
            1 => G::Rect(*b, *a),
            2 => G::MultiPolygon(vec![vary_poly(&Poly::new(rect_ring(*a, *b), vec![]), sub)]),
            _ => G::Coll(vec![g.clone()]),
        },
        G::Triangle(a, b, c) => match which {
            0 => G::Polygon(Poly::new(tri_ring(*a, *b, *c), vec![])),
            1 => G::Triangle(*b, *c, *a),
            2 => G::Triangle(*c, *b, *a),
            _ => G::Coll(vec![g.clone()]),
        },
        G::Coll(v) => match which {
            0 if v.len() == 1 => v[0].clone(),
            1 => G::Coll(vec![g.clone()]),
            _ => G::Coll(v.iter().enumerate().map(|(i, m)| variant(m, sub ^ (i as u64 * 7919))).collect()),
        },
    }
}

// ---------------------------------------------------------------------------
// dispatch

/// Bind `$x` to a reference to the concrete geometry inside a `Geometry` enum.
#[macro_export]
macro_rules! with_concrete {
    ($g:expr, $x:ident => $body:expr) => {
        match $g {
            geo::Geometry::Point($x) => $body,
            geo::Geometry::Line($x) => $body,
            geo::Geometry::LineString($x) => $body,
            geo::Geometry::Polygon($x) => $body,
            geo::Geometry::MultiPoint($x) => $body,
            geo::Geometry::MultiLineString($x) => $body,
            geo::Geometry::MultiPolygon($x) => $body,
            geo::Geometry::Rect($x) => $body,
            geo::Geometry::Triangle($x) => $body,
            geo::Geometry::GeometryCollection($x) => $body,
        }
    };
}

pub fn geom_type_name(g: &Geometry<f64>) -> &'static str {
    match g {
        Geometry::Point(_) => "Point",
        Geometry::Line(_) => "Line",
        Geometry::LineString(_) => "LineString",
        Geometry::Polygon(_) => "Polygon",
        Geometry::MultiPoint(_) => "MultiPoint",
        Geometry::MultiLineString(_) => "MultiLineString",
        Geometry::MultiPolygon(_) => "MultiPolygon",
        Geometry::Rect(_) => "Rect",
        Geometry::Triangle(_) => "Triangle",
        Geometry::GeometryCollection(_) => "GeometryCollection",
    }
}

pub fn wkt(g: &G) -> String {
    fn cs(v: &[C]) -> String {
        v.iter().map(|c| format!("{} {}", c.0, c.1)).collect::<Vec<_>>().join(",")
    }
    fn po(p: &Poly) -> String {
        if p.ext.is_empty() && p.holes.is_empty() {
            return "EMPTY".into();
        }
        let mut s = format!("(({})", cs(&p.ext));
        for h in &p.holes {
            s += &format!(",({})", cs(h));
        }
        s + ")"
    }
    match g {
        G::Point(c) => format!("POINT({} {})", c.0, c.1),
        G::Line(a, b) => format!("LINE({} {},{} {})", a.0, a.1, b.0, b.1),
        G::LineString(v) => format!("LINESTRING({})", cs(v)),
        G::Polygon(p) => format!("POLYGON{}", po(p)),
        G::MultiPoint(v) => format!("MULTIPOINT({})", cs(v)),
        G::MultiLineString(v) => {
            format!("MULTILINESTRING({})", v.iter().map(|l| format!("({})", cs(l))).collect::<Vec<_>>().join(","))
        }
        G::MultiPolygon(v) => format!("MULTIPOLYGON({})", v.iter().map(po).collect::<Vec<_>>().join(",")),
        G::Rect(a, b) => format!("RECT({} {},{} {})", a.0, a.1, b.0, b.1),
        G::Triangle(a, b, c) => format!("TRIANGLE({} {},{} {},{} {})", a.0, a.1, b.0, b.1, c.0, c.1),
        G::Coll(v) => format!("GEOMETRYCOLLECTION({})", v.iter().map(wkt).collect::<Vec<_>>().join(",")),
    }
}

/// Like `with_concrete!` but only for the listed variants; others give `$else`.
#[macro_export]
macro_rules! with_concrete_only {
    ($g:expr, [$($v:ident),*], $x:ident => $body:expr, else $else:expr) => {
        match $g {
            $( geo::Geometry::$v($x) => $body, )*
            #[allow(unreachable_patterns)]
            _ => $else,
        }
    };
}

/// `Into<Geometry>` for all ten types (geo-types has no From<GeometryCollection> for Geometry)
pub trait IntoGeom<T: geo::CoordNum> {
    fn into_geom(self) -> geo::Geometry<T>;
}
macro_rules! into_geom {
    ($($v:ident),*) => { $( impl<T: geo::CoordNum> IntoGeom<T> for geo::$v<T> { fn into_geom(self) -> geo::Geometry<T> { geo::Geometry::$v(self) } } )* };
}
into_geom!(Point, Line, LineString, Polygon, MultiPoint, MultiLineString, MultiPolygon, Rect, Triangle, GeometryCollection);

impl Xf {
    /// inverse map on f64 points (exact up to one rounding of the translation step)
    pub fn invert_f(&self, p: Coord<f64>) -> (f64, f64) {
        let s = self.scale();
        let (x, y) = (p.x / s - self.tx as f64, p.y / s - self.ty as f64);
        match self.d4 % 8 {
            0 => (x, y),
            1 => (y, -x),
            2 => (-x, -y),
            3 => (-y, x),
            4 => (-x, y),
            5 => (x, -y),
            6 => (y, x),
            _ => (-y, -x),
        }
    }
    /// largest absolute coordinate value the transformed image of `g` can have
    pub fn max_abs(&self, g: &G) -> f64 {
        let mut m = 0f64;
        for c in g.coords() {
            let p = self.apply(c);
            m = m.max(p.x.abs()).max(p.y.abs());
        }
        m
    }
}

/// unit in the last place of |v| (v finite)
pub fn ulp(v: f64) -> f64 {
    let a = v.abs().max(f64::MIN_POSITIVE);
    f64::from_bits(a.to_bits() + 1) - a
}

/// The same point set with representation "noise": a consecutive repeated vertex in one line string /
/// ring, an empty member inside a Multi* / collection. Valid for geo's own validation and for JTS.
pub fn noisy(g: &G, sel: u64) -> G {
    let mut s = sel;
    let mut next = |m: usize| -> usize {
        s = crate::engine::splitmix64(s);
        (s % m.max(1) as u64) as usize
    };
    fn dup(v: &Vec<C>, i: usize) -> Vec<C> {
        let mut r = v.clone();
        if !r.is_empty() {
            let k = i % r.len();
            let c = r[k];
            r.insert(k, c);
        }
        r
    }
    match g {
        G::LineString(v) => G::LineString(dup(v, next(64))),
        G::Polygon(p) => {
            let nr = 1 + p.holes.len();
            let ri = next(nr);
            let mut q = p.clone();
            if ri == 0 { q.ext = dup(&q.ext, next(64)) } else { q.holes[ri - 1] = dup(&q.holes[ri - 1], next(64)) }
            G::Polygon(q)
        }
        G::MultiLineString(v) => {
            let mut r = v.clone();
            match next(3) {
                0 => { let k = next(r.len() + 1); r.insert(k.min(r.len()), vec![]); }
                1 if !r.is_empty() => { let k = next(r.len()); r[k] = dup(&r[k], next(64)); }
                _ => { r.push(vec![]); }
            }
            G::MultiLineString(r)
        }
        G::MultiPolygon(v) => {
            let mut r = v.clone();
            match next(3) {
                0 => { let k = next(r.len() + 1); r.insert(k.min(r.len()), Poly::new(vec![], vec![])); }
                1 if !r.is_empty() => { let k = next(r.len()); r[k].ext = dup(&r[k].ext, next(64)); }
                _ => { r.push(Poly::new(vec![], vec![])); }
            }
            G::MultiPolygon(r)
        }
        G::MultiPoint(v) => {
            let mut r = v.clone();
            if !r.is_empty() { let k = next(r.len()); let c = r[k]; r.push(c); }
            G::MultiPoint(r)
        }
        G::Coll(v) => {
            let mut r = v.clone();
            let k = next(r.len() + 1);
            let empty = match next(3) { 0 => G::LineString(vec![]), 1 => G::MultiPoint(vec![]), _ => G::Polygon(Poly::new(vec![], vec![])) };
            r.insert(k.min(r.len()), empty);
            G::Coll(r)
        }
        _ => g.clone(),
    }
}

/// remove the representation noise again (consecutive repeated vertices, empty members)
pub fn denoise(g: &G) -> G {
    fn dd(v: &Vec<C>) -> Vec<C> {
        let mut out: Vec<C> = vec![];
        for c in v {
            if out.last() != Some(c) {
                out.push(*c);
            }
        }
        out
    }
    let dp = |p: &Poly| Poly { ext: dd(&p.ext), holes: p.holes.iter().map(dd).filter(|h| !h.is_empty()).collect() };
    match g {
        G::LineString(v) => G::LineString(dd(v)),
        G::Polygon(p) => G::Polygon(dp(p)),
        G::MultiLineString(v) => G::MultiLineString(v.iter().map(dd).filter(|l| !l.is_empty()).collect()),
        G::MultiPolygon(v) => G::MultiPolygon(v.iter().map(dp).filter(|p| !p.ext.is_empty()).collect()),
        G::Coll(v) => G::Coll(v.iter().map(denoise).filter(|m| !m.is_empty()).collect()),
        _ => g.clone(),
    }
}
