//! Sharded proptest runner, replay, evidence writer, known-findings matcher.
//!
//! Every property implements [`Property`]; `run::<P>()` drives it:
//!   1. replays the committed corpus `corpus/<id>/*.json` through the check fn,
//!   2. runs 16 fixed shards of proptest (seed = splitmix(VERIF_SEED, id, shard)),
//!   3. writes `evidence/<id>.json`, replay files for violations, and returns
//!      the process exit code (0 held / 1 violation / 2 inconclusive).
use proptest::strategy::{BoxedStrategy, Strategy, ValueTree};
use proptest::test_runner::{Config, RngAlgorithm, TestCaseError, TestError, TestRng, TestRunner};
use serde::{de::DeserializeOwned, Serialize};
use serde_json::{json, Value};
use std::collections::{BTreeMap, HashSet};
use std::hash::Hasher;
use std::path::{Path, PathBuf};
use std::sync::atomic::{AtomicBool, AtomicU64, Ordering};
use std::sync::Mutex;
use std::time::Instant;

pub mod panic;
pub use panic::{guard, PanicInfo};

pub const SHARDS: u64 = 16;

#[derive(Clone, Copy, PartialEq, Eq, Debug)]
pub enum Tier {
    Quick,
    Thorough,
}
impl Tier {
    pub fn name(self) -> &'static str {
        match self {
            Tier::Quick => "quick",
            Tier::Thorough => "thorough",
        }
    }
    pub fn pick<T>(self, q: T, t: T) -> T {
        match self {
            Tier::Quick => q,
            Tier::Thorough => t,
        }
    }
}

/// One disagreement between geo and the oracle, keyed for the known-findings
/// matcher. `key` names the API entry point, the input class (as computed by
/// the reference model) and the observed-vs-expected outcome.
#[derive(Clone, Debug)]
pub struct Failure {
    pub key: String,
    pub msg: String,
}

/// Observation sink handed to a check function.
#[derive(Default, Debug)]
pub struct Obs {
    pub nontrivial: bool,
    pub labels: Vec<String>,
    pub failures: Vec<Failure>,
    /// number of individual oracle comparisons made for this case
    pub comparisons: u64,
}
impl Obs {
    pub fn new() -> Self {
        Self::default()
    }
    pub fn label(&mut self, l: impl Into<String>) {
        let l = l.into();
        if !self.labels.contains(&l) {
            self.labels.push(l);
        }
    }
    pub fn nontrivial(&mut self) {
        self.nontrivial = true;
    }
    pub fn fail(&mut self, key: impl Into<String>, msg: impl Into<String>) {
        self.failures.push(Failure {
            key: key.into(),
            msg: msg.into(),
        });
    }
    pub fn cmp(&mut self) {
        self.comparisons += 1;
    }
    /// assert helper: record a failure when `ok` is false
    pub fn expect(&mut self, ok: bool, key: &str, msg: impl FnOnce() -> String) {
        self.comparisons += 1;
        if !ok {
            self.fail(key, msg());
        }
    }
}

pub trait Property: Sync {
    type Case: std::fmt::Debug + Clone + Serialize + DeserializeOwned + Send + 'static;
    const ID: &'static str;
    fn strategy(tier: Tier) -> BoxedStrategy<Self::Case>;
    fn check(case: &Self::Case, obs: &mut Obs);
    /// total number of generated cases for the tier (split over 16 shards)
    fn quota(tier: Tier) -> u64;
    fn rule() -> String;
    fn assumptions() -> Vec<String> {
        vec![]
    }
    /// label classes that must be non-zero; reported as `starved` otherwise
    fn must_hit() -> Vec<&'static str> {
        vec![]
    }
    /// optional extra phase after the proptest shards (e.g. process-level
    /// determinism for C20, libFuzzer for thorough). Returns extra coverage
    /// keys and any failures.
    fn extra_phase(_tier: Tier, _seed: u64, _root: &Path) -> (Value, Vec<(Value, Failure)>) {
        (Value::Null, vec![])
    }
    /// pretty form for samples (defaults to the serialised case)
    fn show(case: &Self::Case) -> Value {
        serde_json::to_value(case).unwrap_or(Value::Null)
    }
}

// ---------------------------------------------------------------------------
// known findings

#[derive(Clone, Debug)]
pub struct KnownFinding {
    pub property: String,
    pub id: String,
    pub status: String, // "known" | "fixed"
    pub keys: Vec<String>,
    pub what: String,
}

pub fn load_known(root: &Path) -> Vec<KnownFinding> {
    let p = root.join("known_findings.json");
    let Ok(txt) = std::fs::read_to_string(&p) else {
        return vec![];
    };
    let v: Value = match serde_json::from_str(&txt) {
        Ok(v) => v,
        Err(e) => {
            eprintln!("known_findings.json unreadable: {e}");
            std::process::exit(2);
        }
    };
    let mut out = vec![];
    for e in v["findings"].as_array().cloned().unwrap_or_default() {
        out.push(KnownFinding {
            property: e["property"].as_str().unwrap_or("").to_string(),
            id: e["id"].as_str().unwrap_or("").to_string(),
            status: e["status"].as_str().unwrap_or("").to_string(),
            keys: e["keys"]
                .as_array()
                .map(|a| {
                    a.iter()
                        .filter_map(|x| x.as_str().map(|s| s.to_string()))
                        .collect()
                })
                .unwrap_or_default(),
            what: e["what"].as_str().unwrap_or("").to_string(),
        });
    }
    out
}

fn key_matches(pat: &str, key: &str) -> bool {
    if let Some(p) = pat.strip_suffix('*') {
        key.starts_with(p)
    } else {
        pat == key
    }
}

/// index of the `known` (not `fixed`) finding that covers this failure key
pub fn match_known(known: &[KnownFinding], prop: &str, key: &str) -> Option<usize> {
    known.iter().position(|k| {
        k.property == prop && k.status == "known" && k.keys.iter().any(|p| key_matches(p, key))
    })
}

// ---------------------------------------------------------------------------

pub fn splitmix64(mut x: u64) -> u64 {
    x = x.wrapping_add(0x9E3779B97F4A7C15);
    let mut z = x;
    z = (z ^ (z >> 30)).wrapping_mul(0xBF58476D1CE4E5B9);
    z = (z ^ (z >> 27)).wrapping_mul(0x94D049BB133111EB);
    z ^ (z >> 31)
}

pub fn shard_seed(seed: u64, id: &str, shard: u64) -> [u8; 32] {
    let mut h = splitmix64(seed ^ 0x5eed_5eed);
    for b in id.bytes() {
        h = splitmix64(h ^ b as u64);
    }
    h = splitmix64(h ^ shard.wrapping_mul(0x1000193));
    let mut out = [0u8; 32];
    for i in 0..4 {
        h = splitmix64(h);
        out[i * 8..i * 8 + 8].copy_from_slice(&h.to_le_bytes());
    }
    out
}

fn hash_str(s: &str) -> u64 {
    // SipHash 1-3 with fixed (zero) keys: deterministic across processes
    #[allow(deprecated)]
    let mut h = std::hash::SipHasher::new();
    h.write(s.as_bytes());
    h.finish()
}

#[derive(Default)]
struct ShardStats {
    evaluations: u64,
    comparisons: u64,
    nontrivial: u64,
    distinct_nt: HashSet<u64>,
    labels: BTreeMap<String, u64>,
    label_samples: BTreeMap<String, Value>,
    first_samples: Vec<Value>,
    excluded_known: BTreeMap<String, u64>,
    known_samples: BTreeMap<String, Value>,
}

impl ShardStats {
    fn merge(&mut self, o: ShardStats) {
        self.evaluations += o.evaluations;
        self.comparisons += o.comparisons;
        self.nontrivial += o.nontrivial;
        self.distinct_nt.extend(o.distinct_nt);
        for (k, v) in o.labels {
            *self.labels.entry(k).or_default() += v;
        }
        for (k, v) in o.label_samples {
            self.label_samples.entry(k).or_insert(v);
        }
        for v in o.first_samples {
            if self.first_samples.len() < 4 {
                self.first_samples.push(v);
            }
        }
        for (k, v) in o.excluded_known {
            *self.excluded_known.entry(k).or_default() += v;
        }
        for (k, v) in o.known_samples {
            self.known_samples.entry(k).or_insert(v);
        }
    }
}

/// Evaluate one case, account for it in `st`, and return the failures that are
/// NOT covered by a known finding.
fn eval_case<P: Property>(
    case: &P::Case,
    known: &[KnownFinding],
    st: &mut ShardStats,
    count: bool,
) -> Vec<Failure> {
    let mut obs = Obs::new();
    // a panic escaping the check function itself (not wrapped by `guard`) is a
    // harness-level surprise; report it as a failure keyed on the panic site so
    // it is never silently swallowed.
    let r = guard(std::panic::AssertUnwindSafe(|| {
        let mut o = Obs::new();
        P::check(case, &mut o);
        o
    }));
    match r {
        Ok(o) => obs = o,
        Err(p) => obs.fail(
            format!("unwrapped-panic|{}", p.site()),
            format!("panic escaped the check: {}", p),
        ),
    }
    let mut unknown = vec![];
    let mut known_hits: Vec<usize> = vec![];
    if survey_mode() {
        // triage aid (never used by registered commands): count every failure key, do not stop
        for f in obs.failures.iter() {
            let mut g = SURVEY.lock().unwrap();
            let e = g.entry(f.key.clone()).or_insert((0, f.msg.clone()));
            e.0 += 1;
        }
        obs.failures.clear();
    }
    for f in obs.failures.iter() {
        match match_known(known, P::ID, &f.key) {
            Some(i) => {
                if !known_hits.contains(&i) {
                    known_hits.push(i)
                }
            }
            None => unknown.push(f.clone()),
        }
    }
    if count {
        st.evaluations += 1;
        st.comparisons += obs.comparisons;
        let need_json = obs.nontrivial
            || st.first_samples.len() < 2
            || obs.labels.iter().any(|l| !st.label_samples.contains_key(l))
            || !known_hits.is_empty();
        let js = if need_json {
            serde_json::to_string(case).unwrap_or_default()
        } else {
            String::new()
        };
        if obs.nontrivial {
            st.nontrivial += 1;
            st.distinct_nt.insert(hash_str(&js));
        }
        if st.first_samples.len() < 2 {
            st.first_samples.push(P::show(case));
        }
        for l in obs.labels.iter() {
            *st.labels.entry(l.clone()).or_default() += 1;
            if !st.label_samples.contains_key(l) && st.label_samples.len() < 400 {
                st.label_samples.insert(l.clone(), P::show(case));
            }
        }
        for i in known_hits {
            let id = known[i].id.clone();
            *st.excluded_known.entry(id.clone()).or_default() += 1;
            st.known_samples.entry(id).or_insert_with(|| P::show(case));
        }
    }
    unknown
}

pub static SURVEY: Mutex<BTreeMap<String, (u64, String)>> = Mutex::new(BTreeMap::new());
pub fn survey_mode() -> bool {
    static ON: std::sync::OnceLock<bool> = std::sync::OnceLock::new();
    *ON.get_or_init(|| std::env::var("VERIF_SURVEY").is_ok())
}

pub struct RunOpts {
    pub tier: Tier,
    pub seed: u64,
    pub root: PathBuf,
    /// scale factor on the quota (VERIF_SCALE, for calibration runs only)
    pub scale: f64,
}

fn write_replay<P: Property>(root: &Path, case: &P::Case, fails: &[Failure], origin: &str) -> PathBuf {
    let dir = root.join("replays").join(P::ID);
    let _ = std::fs::create_dir_all(&dir);
    let cj = serde_json::to_value(case).unwrap_or(Value::Null);
    let h = hash_str(&cj.to_string());
    let path = dir.join(format!("{:016x}.json", h));
    let doc = json!({
        "property": P::ID,
        "origin": origin,
        "failures": fails.iter().map(|f| json!({"key": f.key, "msg": f.msg})).collect::<Vec<_>>(),
        "case": cj,
    });
    let _ = std::fs::write(&path, serde_json::to_string_pretty(&doc).unwrap());
    path
}

pub fn write_replay_pub<P: Property>(root: &Path, case: &P::Case, fails: &[Failure], origin: &str) -> PathBuf {
    write_replay::<P>(root, case, fails, origin)
}

/// Load a case from a replay/corpus file: either `{"case": ...}` or the bare case.
pub fn load_case<P: Property>(path: &Path) -> Result<P::Case, String> {
    let txt = std::fs::read_to_string(path).map_err(|e| format!("{}: {e}", path.display()))?;
    let v: Value = serde_json::from_str(&txt).map_err(|e| format!("{}: {e}", path.display()))?;
    let cv = if v.get("case").is_some() { v["case"].clone() } else { v };
    serde_json::from_value::<P::Case>(cv).map_err(|e| format!("{}: {e}", path.display()))
}

pub fn replay<P: Property>(root: &Path, path: &Path) -> i32 {
    panic::install_hook();
    let known = load_known(root);
    let case = match load_case::<P>(path) {
        Ok(c) => c,
        Err(e) => {
            eprintln!("cannot load replay: {e}");
            return 2;
        }
    };
    let mut obs = Obs::new();
    P::check(&case, &mut obs);
    println!("labels: {:?} nontrivial: {}", obs.labels, obs.nontrivial);
    let mut bad = 0;
    for f in &obs.failures {
        match match_known(&known, P::ID, &f.key) {
            Some(i) => println!(
                "KNOWN-FINDING: property={} {} [{}] {}",
                P::ID, known[i].id, f.key, f.msg
            ),
            None => {
                bad += 1;
                println!("FAIL [{}] {}", f.key, f.msg);
            }
        }
    }
    if bad > 0 {
        println!("VIOLATION property={} replay={}", P::ID, path.display());
        1
    } else {
        println!("replay ok ({} comparisons)", obs.comparisons);
        0
    }
}

pub fn run<P: Property>(opts: &RunOpts) -> i32 {
    panic::install_hook();
    let t0 = Instant::now();
    let root = &opts.root;
    // board edge of the scene generators: 6 in the quick tier, 8 in the thorough tier (VERIF_BOARD overrides, for calibration)
    crate::gen::set_max_g(std::env::var("VERIF_BOARD").ok().and_then(|v| v.parse().ok()).unwrap_or(opts.tier.pick(6, 8)));
    let known = load_known(root);
    let mut total = ShardStats::default();
    // (case json, failures, origin)
    let mut violations: Vec<(PathBuf, Vec<Failure>)> = vec![];

    // ---- phase 1: committed corpus
    let mut corpus_n = 0u64;
    let cdir = root.join("corpus").join(P::ID);
    if let Ok(rd) = std::fs::read_dir(&cdir) {
        let mut files: Vec<PathBuf> = rd
            .filter_map(|e| e.ok().map(|e| e.path()))
            .filter(|p| p.extension().map(|x| x == "json").unwrap_or(false))
            .collect();
        files.sort();
        for f in files {
            match load_case::<P>(&f) {
                Ok(case) => {
                    corpus_n += 1;
                    let unknown = eval_case::<P>(&case, &known, &mut total, true);
                    if !unknown.is_empty() {
                        let p = write_replay::<P>(root, &case, &unknown, &format!("corpus:{}", f.display()));
                        violations.push((p, unknown));
                    }
                }
                Err(e) => {
                    eprintln!("corpus file unreadable (exit 2): {e}");
                    return 2;
                }
            }
        }
    }

    // ---- phase 2: sharded proptest
    let quota = ((P::quota(opts.tier) as f64) * opts.scale).ceil() as u64;
    let per_shard = ((quota + SHARDS - 1) / SHARDS).max(1);
    let stop = AtomicBool::new(false);
    let rejects = AtomicU64::new(0);
    let aborted: Mutex<Vec<String>> = Mutex::new(vec![]);
    let results: Mutex<Vec<(u64, ShardStats, Option<(P::Case, Vec<Failure>)>)>> = Mutex::new(vec![]);
    // watchdog state: per shard (start instant millis since t0, case json)
    let inflight: Vec<Mutex<Option<(Instant, String)>>> = (0..SHARDS).map(|_| Mutex::new(None)).collect();
    let done = AtomicBool::new(false);
    let hang_limit_s: u64 = std::env::var("VERIF_HANG_S").ok().and_then(|s| s.parse().ok()).unwrap_or(300);

    std::thread::scope(|sc| {
        // watchdog
        sc.spawn(|| {
            while !done.load(Ordering::Relaxed) {
                std::thread::sleep(std::time::Duration::from_millis(500));
                for (i, slot) in inflight.iter().enumerate() {
                    let g = slot.lock().unwrap();
                    if let Some((t, js)) = g.as_ref() {
                        if t.elapsed().as_secs() > hang_limit_s {
                            let dir = root.join("replays").join(P::ID);
                            let _ = std::fs::create_dir_all(&dir);
                            let p = dir.join(format!("hang-shard{}.json", i));
                            let _ = std::fs::write(&p, format!("{{\"property\":\"{}\",\"origin\":\"watchdog\",\"case\":{}}}", P::ID, js));
                            eprintln!("INCONCLUSIVE: a single case exceeded {hang_limit_s}s (hang?); case written to {}", p.display());
                            std::process::exit(2);
                        }
                    }
                }
            }
        });
        let mut handles = vec![];
        for shard in 0..SHARDS {
            let known = &known;
            let stop = &stop;
            let rejects = &rejects;
            let aborted = &aborted;
            let results = &results;
            let inflight = &inflight;
            let tier = opts.tier;
            let seed = opts.seed;
            handles.push(std::thread::Builder::new().stack_size(64 << 20).spawn_scoped(sc, move || {
                let cfg = Config {
                    cases: per_shard as u32,
                    failure_persistence: None,
                    max_shrink_iters: 4096,
                    max_global_rejects: (per_shard as u32).saturating_mul(20).saturating_add(65536),
                    max_local_rejects: (per_shard as u32).saturating_mul(64).saturating_add(1_000_000),
                    verbose: 0,
                    ..Config::default()
                };
                let rng = TestRng::from_seed(RngAlgorithm::ChaCha, &shard_seed(seed, P::ID, shard));
                let mut runner = TestRunner::new_with_rng(cfg, rng);
                let strat = P::strategy(tier);
                let st = std::cell::RefCell::new(ShardStats::default());
                let failed = std::cell::Cell::new(false);
                let last_fail: std::cell::RefCell<Option<Vec<Failure>>> = std::cell::RefCell::new(None);
                let res = runner.run(&strat, |case| {
                    if stop.load(Ordering::Relaxed) && !failed.get() {
                        return Ok(());
                    }
                    {
                        let js = serde_json::to_string(&case).unwrap_or_default();
                        *inflight[shard as usize].lock().unwrap() = Some((Instant::now(), js));
                    }
                    let unknown = eval_case::<P>(&case, known, &mut st.borrow_mut(), !failed.get());
                    *inflight[shard as usize].lock().unwrap() = None;
                    if unknown.is_empty() {
                        Ok(())
                    } else {
                        failed.set(true);
                        stop.store(true, Ordering::Relaxed);
                        let msg = unknown[0].key.clone();
                        *last_fail.borrow_mut() = Some(unknown);
                        Err(TestCaseError::fail(msg))
                    }
                });
                let viol = match res {
                    Ok(()) => None,
                    Err(TestError::Fail(_, case)) => {
                        // re-evaluate the minimal case to get its own failure list
                        let mut scratch = ShardStats::default();
                        let mut f = eval_case::<P>(&case, known, &mut scratch, false);
                        if f.is_empty() {
                            f = last_fail.borrow_mut().take().unwrap_or_default();
                        }
                        Some((case, f))
                    }
                    Err(TestError::Abort(r)) => {
                        aborted.lock().unwrap().push(format!("shard {shard}: {r}"));
                        None
                    }
                };
                let _ = rejects;
                results.lock().unwrap().push((shard, st.into_inner(), viol));
            }).unwrap());
        }
        for (i, h) in handles.into_iter().enumerate() {
            // a shard thread that died (a panic outside every guard) has delivered no result: never take that for "held"
            if h.join().is_err() {
                aborted.lock().unwrap_or_else(|e| e.into_inner()).push(format!("shard {i}: thread died from a panic outside the case evaluation"));
            }
        }
        done.store(true, Ordering::Relaxed);
    });

    let mut res = results.into_inner().unwrap();
    res.sort_by_key(|r| r.0);
    let mut generated = 0u64;
    for (_shard, st, viol) in res {
        generated += st.evaluations;
        total.merge(st);
        if let Some((case, fails)) = viol {
            let p = write_replay::<P>(root, &case, &fails, "proptest-shrunk");
            violations.push((p, fails));
        }
    }
    let aborted = aborted.into_inner().unwrap();

    // ---- phase 3: optional extra phase
    let (extra_cov, extra_fail) = if violations.is_empty() {
        P::extra_phase(opts.tier, opts.seed, root)
    } else {
        (Value::Null, vec![])
    };
    for (cv, f) in extra_fail {
        match match_known(&known, P::ID, &f.key) {
            Some(i) => {
                *total.excluded_known.entry(known[i].id.clone()).or_default() += 1;
            }
            None => {
                let dir = root.join("replays").join(P::ID);
                let _ = std::fs::create_dir_all(&dir);
                let h = hash_str(&cv.to_string());
                let path = dir.join(format!("{:016x}.json", h));
                let doc = json!({"property": P::ID, "origin": "extra-phase",
                    "failures": [{"key": f.key, "msg": f.msg}], "case": cv});
                let _ = std::fs::write(&path, serde_json::to_string_pretty(&doc).unwrap());
                violations.push((path, vec![f]));
            }
        }
    }

    if survey_mode() {
        for (k, (n, msg)) in SURVEY.lock().unwrap().iter() {
            println!("SURVEY {n:>8}  {k}\n          e.g. {msg}");
        }
        println!("SURVEY MODE: results above are for triage only");
        return 2;
    }
    // ---- report
    for (id, n) in total.excluded_known.iter() {
        let k = known.iter().find(|k| &k.id == id);
        println!(
            "KNOWN-FINDING: property={} {} ({} cases excluded) {}",
            P::ID,
            id,
            n,
            k.map(|k| k.what.as_str()).unwrap_or("")
        );
    }
    let mut seen = HashSet::new();
    for (p, fails) in violations.iter() {
        if seen.insert(p.clone()) {
            for f in fails {
                eprintln!("  [{}] {}", f.key, f.msg);
            }
            println!("VIOLATION property={} replay={}", P::ID, p.display());
        }
    }
    let starved: Vec<&str> = P::must_hit()
        .into_iter()
        .filter(|l| total.labels.get(*l).copied().unwrap_or(0) == 0)
        .collect();
    if !starved.is_empty() {
        eprintln!("warning: starved label classes: {:?}", starved);
    }

    let mut samples: Vec<Value> = total.first_samples.clone();
    let mut label_samples = serde_json::Map::new();
    for (k, v) in total.label_samples.iter().take(60) {
        label_samples.insert(k.clone(), v.clone());
    }
    if samples.is_empty() {
        samples.push(json!("no case generated"));
    }
    let wall = t0.elapsed().as_secs_f64();
    let mut coverage = json!({
        "evaluations": total.evaluations,
        "distinct_nontrivial": total.distinct_nt.len(),
        "nontrivial_total": total.nontrivial,
        "oracle_comparisons": total.comparisons,
        "rule": P::rule(),
        "samples": samples,
        "samples_by_label": label_samples,
        "labels": total.labels,
        "corpus_cases": corpus_n,
        "generated_cases": generated,
        "shards": SHARDS,
        "excluded_known": total.excluded_known,
        "excluded_known_samples": total.known_samples,
        "starved": starved,
        "generator_layer": {
            "built": crate::gen::GEN_ACCEPT.load(std::sync::atomic::Ordering::Relaxed),
            "refused": crate::gen::GEN_REJECT.load(std::sync::atomic::Ordering::Relaxed),
            "generic_position": crate::gen::GEN_JITTERED.load(std::sync::atomic::Ordering::Relaxed),
            "note": "draws of the board/scene builders that produced a model geometry vs. draws they refused (trace not simple, out of the exact oracle's domain); refused draws are redrawn by proptest and are not cases; generic_position = built draws of the generic-position family (lattice refined 16-fold, every lattice point displaced by up to 1, 2 or 5 sub-units, the same point always to the same place: shared vertices stay shared, vertex-on-edge and collinear coincidences become near misses with generic slopes)"
        },
        "aborted_shards": aborted,
        "exhaustive": false,
    });
    // statistics of the libFuzzer phase, when ./check ran one for this property just before
    if opts.tier == Tier::Thorough {
        if let Ok(txt) = std::fs::read_to_string(root.join("fuzz-scratch").join(format!("{}.stats.json", P::ID))) {
            if let Ok(v) = serde_json::from_str::<Value>(&txt) {
                coverage["fuzz"] = v;
            }
        }
    }
    if let Value::Object(m) = extra_cov {
        for (k, v) in m {
            coverage[k] = v;
        }
    }
    let ev = json!({
        "property_id": P::ID,
        "tier": opts.tier.name(),
        "seed": opts.seed,
        "level": "exploration",
        "coverage": coverage,
        "assumptions": P::assumptions(),
        "wall_s": wall,
        "violations": violations.len(),
    });
    // VERIF_EVIDENCE_DIR: only set by `./check` when it is pointed at another copy of the repository (VERIF_REPO)
    let edir = std::env::var("VERIF_EVIDENCE_DIR").map(std::path::PathBuf::from).unwrap_or_else(|_| root.join("evidence"));
    let _ = std::fs::create_dir_all(&edir);
    let epath = edir.join(format!("{}.json", P::ID));
    if let Err(e) = std::fs::write(&epath, serde_json::to_string_pretty(&ev).unwrap()) {
        eprintln!("cannot write evidence: {e}");
        return 2;
    }
    eprintln!(
        "{} {}: {} cases ({} corpus), {} distinct non-trivial, {} comparisons, {:.1}s, {} violation(s)",
        P::ID,
        opts.tier.name(),
        total.evaluations,
        corpus_n,
        total.distinct_nt.len(),
        total.comparisons,
        wall,
        violations.len()
    );
    if !violations.is_empty() {
        return 1;
    }
    if !aborted.is_empty() {
        eprintln!("INCONCLUSIVE: proptest aborted: {:?}", aborted);
        return 2;
    }
    0
}

/// Helper for tests of the strategies: draw `n` values deterministically.
pub fn sample_strategy<T: std::fmt::Debug>(s: &BoxedStrategy<T>, n: usize, seed: u64) -> Vec<T> {
    let rng = TestRng::from_seed(RngAlgorithm::ChaCha, &shard_seed(seed, "sample", 0));
    let mut runner = TestRunner::new_with_rng(Config::default(), rng);
    let mut out = vec![];
    let mut tries = 0;
    while out.len() < n && tries < n * 50 {
        tries += 1;
        if let Ok(t) = s.new_tree(&mut runner) {
            out.push(t.current());
        }
    }
    out
}
