//! Silent panic hook + `guard`: run a geo call, capture a panic as data.
use std::cell::RefCell;
use std::panic::{catch_unwind, UnwindSafe};
use std::sync::Once;

#[derive(Clone, Debug, Default)]
pub struct PanicInfo {
    pub file: String,
    pub line: u32,
    pub msg: String,
}
impl PanicInfo {
    /// `dir/file.rs` tail of the panic location (stable across checkouts)
    pub fn site(&self) -> String {
        let parts: Vec<&str> = self.file.split('/').collect();
        let n = parts.len();
        if n >= 2 {
            format!("{}/{}", parts[n - 2], parts[n - 1])
        } else {
            self.file.clone()
        }
    }
}
impl std::fmt::Display for PanicInfo {
    fn fmt(&self, f: &mut std::fmt::Formatter<'_>) -> std::fmt::Result {
        write!(f, "panic at {}:{}: {}", self.file, self.line, self.msg)
    }
}

thread_local! {
    static LAST: RefCell<Option<PanicInfo>> = const { RefCell::new(None) };
}
static HOOK: Once = Once::new();

pub fn install_hook() {
    HOOK.call_once(|| {
        std::panic::set_hook(Box::new(|info| {
            let (file, line) = info
                .location()
                .map(|l| (l.file().to_string(), l.line()))
                .unwrap_or_default();
            let msg = if let Some(s) = info.payload().downcast_ref::<&str>() {
                s.to_string()
            } else if let Some(s) = info.payload().downcast_ref::<String>() {
                s.clone()
            } else {
                "<non-string panic payload>".to_string()
            };
            if std::env::var_os("VERIF_PANIC_TRACE").is_some() {
                eprintln!("panic at {file}:{line}: {msg}");
            }
            LAST.with(|l| *l.borrow_mut() = Some(PanicInfo { file, line, msg }));
        }));
    });
}

pub fn guard<T>(f: impl FnOnce() -> T + UnwindSafe) -> Result<T, PanicInfo> {
    install_hook();
    LAST.with(|l| *l.borrow_mut() = None);
    match catch_unwind(f) {
        Ok(v) => Ok(v),
        Err(_) => Err(LAST.with(|l| l.borrow_mut().take()).unwrap_or_default()),
    }
}

/// `guard` for closures borrowing non-UnwindSafe data
pub fn guard_aus<T>(f: impl FnOnce() -> T) -> Result<T, PanicInfo> {
    guard(std::panic::AssertUnwindSafe(f))
}
