//! proptest strategies. All random choices are plain integers/booleans drawn by
//! proptest and mapped constructively to geometry, so values shrink towards
//! fewer cells / vertices and smaller coordinates.
pub mod board;

use crate::conv::Xf;
use crate::exact::C;
use crate::refgeom::validity::in_relate_domain;
use crate::refgeom::{rect_ring, Poly, G};
use board::{enclosed, trace, BOARD};
pub use board::{max_g, set_max_g};
use proptest::prelude::*;
use serde::{Deserialize, Serialize};

pub const NKINDS: u8 = 13;

/// raw point: (use_pool, x, y, pool_index)
pub type RawPt = (u8, u8, u8, u8);

#[derive(Clone, Debug)]
pub struct RawGeom {
    pub kind: u8,
    pub cells: Vec<bool>,
    pub pts: Vec<RawPt>,
    pub flags: u32,
}

pub fn raw_geom() -> impl Strategy<Value = RawGeom> {
    (
        0..NKINDS,
        proptest::collection::vec(proptest::bool::weighted(0.45), BOARD * BOARD),
        proptest::collection::vec((0u8..=255, 0u8..17, 0u8..17, 0u8..=255), 1..10),
        any::<u32>(),
    )
        .prop_map(|(kind, cells, pts, flags)| RawGeom { kind, cells, pts, flags })
}

/// 2x2 integer matrix, row-major
pub type Mat = [i64; 4];

pub fn mat_apply(m: &Mat, c: C) -> C {
    (m[0] * c.0 + m[1] * c.1, m[2] * c.0 + m[3] * c.1)
}
pub fn mat_axis_aligned(m: &Mat) -> bool {
    (m[1] == 0 && m[2] == 0) || (m[0] == 0 && m[3] == 0)
}
pub fn mat_det(m: &Mat) -> i64 {
    m[0] * m[3] - m[1] * m[2]
}

/// invertible integer matrix; the identity / axis-aligned ones keep a fixed share
pub fn mat_strategy() -> impl Strategy<Value = Mat> {
    prop_oneof![
        4 => Just([1, 0, 0, 1]),
        2 => (prop_oneof![Just(1i64), Just(-1), Just(2), Just(3)], prop_oneof![Just(1i64), Just(-1), Just(2)], any::<bool>())
            .prop_map(|(a, d, swap)| if swap { [0, a, d, 0] } else { [a, 0, 0, d] }),
        5 => (-3i64..=3, -3i64..=3, -3i64..=3, -3i64..=3)
            .prop_map(|(a, b, c, d)| [a, b, c, d])
            .prop_filter("singular", |m| mat_det(m) != 0),
    ]
}

pub fn xf_strategy() -> impl Strategy<Value = Xf> {
    prop_oneof![
        5 => Just(Xf::ID),
        3 => (0u8..8).prop_map(|d4| Xf { d4, k: 0, tx: 0, ty: 0 }),
        4 => (0u8..8, -30i8..=30, prop_oneof![Just(0i64), -1000i64..1000, -(1i64 << 40)..(1i64 << 40)],
              prop_oneof![Just(0i64), -1000i64..1000, -(1i64 << 40)..(1i64 << 40)])
            .prop_map(|(d4, k, tx, ty)| Xf { d4, k, tx, ty }),
        // "translated by 1e8"-like: large offset, unit scale
        2 => (0u8..8, (1i64 << 26)..(1i64 << 40), -(1i64 << 40)..(1i64 << 40), any::<bool>())
            .prop_map(|(d4, tx, ty, neg)| Xf { d4, k: 0, tx: if neg { -tx } else { tx }, ty }),
    ]
}

fn lattice_coord(raw: u8, g: usize) -> i64 {
    // monotone map 0..17 -> 0..=2g
    (raw as i64 * (2 * g as i64 + 1)) / 17
}

/// feature pool of a geometry on the board: vertices, lattice midpoints of its
/// segments, cell centres and near-by lattice points.
pub fn feature_pool(g: &G) -> Vec<C> {
    let mut pool: Vec<C> = g.coords();
    for (a, b) in g.segments() {
        if (a.0 + b.0) % 2 == 0 && (a.1 + b.1) % 2 == 0 {
            pool.push(((a.0 + b.0) / 2, (a.1 + b.1) / 2));
        }
        // lattice points at thirds/quarters rarely exist; unit steps along axis-parallel edges
        if a.0 == b.0 || a.1 == b.1 {
            let n = (a.0 - b.0).abs().max((a.1 - b.1).abs());
            for k in 1..n {
                pool.push((a.0 + (b.0 - a.0) * k / n, a.1 + (b.1 - a.1) * k / n));
            }
        }
    }
    if let Some(((x0, y0), (x1, y1))) = g.bbox() {
        pool.push(((x0 + x1) / 2, (y0 + y1) / 2));
        pool.push((x0, y1));
        pool.push((x1, y0));
    }
    pool.sort();
    pool.dedup();
    pool
}

fn pick(p: &RawPt, g: usize, pool: &[C], bias: bool) -> C {
    if bias && p.0 < 150 && !pool.is_empty() {
        pool[(p.3 as usize * pool.len()) >> 8]
    } else {
        (lattice_coord(p.1, g), lattice_coord(p.2, g))
    }
}

fn distinct_prefix(pts: &[C], n: usize) -> Vec<C> {
    let mut out: Vec<C> = vec![];
    for &p in pts {
        if !out.contains(&p) {
            out.push(p);
        }
        if out.len() == n {
            break;
        }
    }
    out
}

/// Build a model geometry on the board from a raw description.
/// `pool`: feature pool of the other operand (coincidence bias), may be empty.
/// `other_cells`: the other operand's cell mask, for derived masks.
pub fn build_geom(raw: &RawGeom, g: usize, pool: &[C], other_cells: Option<&[bool]>) -> Option<G> {
    let f = raw.flags;
    if (f >> 27) == 0 {
        // empty geometries at a low rate (1/32)
        return Some(match raw.kind {
            1 => G::MultiPoint(vec![]),
            3 => G::LineString(vec![]),
            4 => G::MultiLineString(vec![]),
            5 | 10 | 11 | 12 => G::Polygon(Poly::new(vec![], vec![])),
            6 => G::MultiPolygon(vec![]),
            9 => G::Coll(vec![]),
            _ => return None,
        });
    }
    // the hull / star / shell-with-hole kinds need a minimum number of raw points: pad the drawn list with
    // points derived from it (construction instead of refusing the draw)
    let need = match raw.kind {
        10 => 3,
        11 => 4,
        12 => 8,
        _ => 0,
    };
    let padded: RawGeom;
    let raw = if raw.pts.len() < need {
        let mut pts = raw.pts.clone();
        let mut i = 0u64;
        while pts.len() < need {
            let src = raw.pts[(i as usize) % raw.pts.len()];
            let h = crate::engine::splitmix64(f as u64 ^ (i + 1).wrapping_mul(0x9E3779B97F4A7C15) ^ ((src.0 as u64) << 24 | (src.1 as u64) << 16 | (src.2 as u64) << 8 | src.3 as u64));
            pts.push(((h & 255) as u8, ((h >> 8) % 17) as u8, ((h >> 16) % 17) as u8, ((h >> 24) & 255) as u8));
            i += 1;
        }
        padded = RawGeom { kind: raw.kind, cells: raw.cells.clone(), pts, flags: raw.flags };
        &padded
    } else {
        raw
    };
    let bias = f & 1 == 0; // half of the second operands are coincidence-biased
    // "inside a hole" mode: every point of the second operand is the centre of a cell enclosed by the first
    // operand (points, lines and triangles strictly inside its holes, possibly several different holes)
    let hole_pool: Vec<C> = match other_cells {
        Some(oc) if matches!((f >> 1) & 7, 4 | 5) => {
            let enc = enclosed(oc, g);
            (0..BOARD * BOARD).filter(|k| enc[*k]).map(|k| (2 * (k % BOARD) as i64 + 1, 2 * (k / BOARD) as i64 + 1)).collect()
        }
        _ => vec![],
    };
    let pts: Vec<C> = if hole_pool.is_empty() {
        raw.pts.iter().map(|p| pick(p, g, pool, bias)).collect()
    } else {
        raw.pts.iter().map(|p| hole_pool[(p.3 as usize * hole_pool.len()) >> 8]).collect()
    };
    // cell mask, possibly derived from the other operand's
    let mut cells = raw.cells.clone();
    if let Some(oc) = other_cells {
        match (f >> 1) & 7 {
            0 => cells = oc.to_vec(),
            1 => {
                for k in 0..cells.len() {
                    cells[k] = !oc[k];
                }
            }
            2 => cells = enclosed(oc, g),
            3 => {
                // union with own: overlapping / adjacent
                for k in 0..cells.len() {
                    cells[k] = cells[k] && !oc[k];
                }
            }
            _ => {}
        }
    }
    if other_cells.is_none() {
        cells = effective_cells(raw, g);
    }
    let merge_sel = if (f >> 4) & 1 == 0 { 0 } else { (f as u64) | 1 };
    // polyomino outlines carry a vertex at every lattice point they pass; half of the time the collinear ones are dropped,
    // so that edges are long and another ring (or the partner) can touch or cross them strictly inside an edge
    let polys = || -> Vec<Poly> {
        let v = trace(&cells, g, merge_sel);
        if (f >> 18) & 1 == 1 {
            return v;
        }
        let slim = |r: &Vec<C>| -> Vec<C> {
            if r.len() < 4 {
                return r.clone();
            }
            let open = &r[..r.len() - 1];
            let n = open.len();
            let mut out: Vec<C> = (0..n)
                .filter(|i| {
                    let (a, b, c) = (open[(i + n - 1) % n], open[*i], open[(i + 1) % n]);
                    (b.0 - a.0) * (c.1 - b.1) - (b.1 - a.1) * (c.0 - b.0) != 0
                })
                .map(|i| open[i])
                .collect();
            if out.len() < 3 {
                return r.clone();
            }
            let f0 = out[0];
            out.push(f0);
            out
        };
        v.iter().map(|p| Poly { ext: slim(&p.ext), holes: p.holes.iter().map(&slim).collect() }).collect()
    };
    let sub = (f >> 8) as usize;
    match raw.kind {
        0 => Some(G::Point(pts[0])),
        1 => Some(G::MultiPoint(pts.clone())),
        2 => {
            let d = distinct_prefix(&pts, 2);
            if d.len() < 2 {
                return None;
            }
            // a quarter of the biased lines run THROUGH a feature of the other operand (a vertex, an edge mid point, a touch
            // point) instead of ending at it: a proper crossing exactly at that feature
            if bias && !pool.is_empty() && (f >> 5) & 3 == 0 {
                let c0 = pool[(raw.pts[0].3 as usize * pool.len()) >> 8];
                let dv = (d[1].0 - d[0].0, d[1].1 - d[0].1);
                let gcd = { let (mut a, mut b) = (dv.0.abs(), dv.1.abs()); while b != 0 { let t = a % b; a = b; b = t; } a.max(1) };
                let (ux, uy) = (dv.0 / gcd, dv.1 / gcd);
                let k = 1 + (sub % 3) as i64;
                return Some(G::Line((c0.0 - k * ux, c0.1 - k * uy), (c0.0 + k * ux, c0.1 + k * uy)));
            }
            Some(G::Line(d[0], d[1]))
        }
        3 => {
            let n = 2 + sub % 5;
            let mut d = distinct_prefix(&pts, n);
            if d.len() < 2 {
                return None;
            }
            if (f >> 5) & 3 == 0 && d.len() >= 3 {
                d.push(d[0]);
            }
            Some(G::LineString(d))
        }
        4 => {
            // members of 2-3 vertices; member i may start at an endpoint of an earlier member
            let d = distinct_prefix(&pts, 8);
            if d.len() < 3 {
                return None;
            }
            let mut members: Vec<Vec<C>> = vec![];
            let mut i = 0;
            let mut s = sub;
            while i + 1 < d.len() && members.len() < 4 {
                let len = 2 + (s & 1);
                s >>= 1;
                let mut m: Vec<C> = d[i..(i + len).min(d.len())].to_vec();
                i += m.len();
                if !members.is_empty() && s & 1 == 1 {
                    // attach to an endpoint of an earlier member
                    let e = &members[(s >> 1) % members.len()];
                    let p = if (s >> 3) & 1 == 0 { e[0] } else { *e.last().unwrap() };
                    if !m.contains(&p) {
                        m.insert(0, p);
                    }
                }
                s >>= 4;
                if m.len() >= 2 {
                    members.push(m);
                }
            }
            if (f >> 5) & 7 == 0 && members.len() >= 2 {
                // close a loop: last member ends where the first begins
                let p = members[0][0];
                let last = members.last_mut().unwrap();
                if !last.contains(&p) {
                    last.push(p);
                }
            }
            Some(G::MultiLineString(members))
        }
        5 => {
            let ps = polys();
            if ps.is_empty() {
                return None;
            }
            Some(G::Polygon(ps[sub % ps.len()].clone()))
        }
        6 if (f >> 19) & 3 == 0 => {
            // members touching strictly inside an edge: a convex member (hull of four raw points) and one or two triangles, each
            // with an apex at the (lattice) midpoint of one of its edges and the other corners drawn freely; whether they are
            // valid together (interiors disjoint, finitely many touch points) is decided by the domain filter
            let base: Vec<C> = raw.pts.iter().take(4).map(|p| (2 * lattice_coord(p.1, g), 2 * lattice_coord(p.2, g))).collect();
            let h = crate::refgeom::measure::hull(&base);
            if h.len() < 3 || raw.pts.len() < 2 {
                return None;
            }
            let n = h.len();
            let mut members = vec![{ let mut e = h.clone(); e.push(e[0]); Poly::new(e, vec![]) }];
            for t in 0..(1 + (f >> 21) as usize % 2) {
                let k = (sub >> (3 * t)) % n;
                let (a, b) = (h[k], h[(k + 1) % n]);
                let apex = ((a.0 + b.0) / 2, (a.1 + b.1) / 2);
                let q = |i: usize| { let p = raw.pts[(i + 2 * t) % raw.pts.len()]; (2 * lattice_coord(p.2, g) + 1 - 2 * (t as i64 % 2), 2 * lattice_coord(p.1, g)) };
                let (c1, c2) = (q(0), q(1));
                if (c1.0 - apex.0) * (c2.1 - apex.1) - (c1.1 - apex.1) * (c2.0 - apex.0) == 0 {
                    continue;
                }
                members.push(Poly::new(vec![apex, c1, c2, apex], vec![]));
            }
            if members.len() < 2 {
                return None;
            }
            Some(G::MultiPolygon(members))
        }
        6 => {
            let ps = polys();
            if ps.is_empty() {
                return None;
            }
            // all components or a subset
            let keep: Vec<Poly> = if (f >> 5) & 1 == 0 {
                ps
            } else {
                ps.into_iter().enumerate().filter(|(i, _)| (sub >> i) & 1 == 0).map(|(_, p)| p).collect()
            };
            Some(G::MultiPolygon(keep))
        }
        7 => {
            let d = distinct_prefix(&pts, 8);
            let a = d[0];
            let b = d.iter().find(|b| b.0 != a.0 && b.1 != a.1)?;
            // a quarter of the biased rectangles have a side running through a feature of the other operand
            if bias && !pool.is_empty() && (f >> 5) & 3 == 0 {
                let c0 = pool[(raw.pts[0].3 as usize * pool.len()) >> 8];
                let (w, h) = ((b.0 - a.0).abs().max(1), (b.1 - a.1).abs().max(1));
                let k = 1 + (sub % 2) as i64;
                return Some(if sub & 4 == 0 { G::Rect((c0.0, c0.1 - k), (c0.0 + w, c0.1 + h)) } else { G::Rect((c0.0 - k, c0.1), (c0.0 + w, c0.1 + h)) });
            }
            Some(G::Rect(a, *b))
        }
        8 => {
            let d = distinct_prefix(&pts, 3);
            if d.len() < 3 {
                return None;
            }
            Some(G::Triangle(d[0], d[1], d[2]))
        }
        9 => {
            // collections: single dimension, members pairwise disjoint (checked by the caller's domain filter)
            match sub % 3 {
                0 => Some(G::Coll(distinct_prefix(&pts, 4).into_iter().map(G::Point).collect())),
                1 => {
                    let d = distinct_prefix(&pts, 6);
                    if d.len() < 4 {
                        return None;
                    }
                    Some(G::Coll(vec![G::LineString(d[..2].to_vec()), G::LineString(d[2..].to_vec())]))
                }
                _ => {
                    let ps = polys();
                    if ps.is_empty() {
                        return None;
                    }
                    // members that are rectangles / triangles appear as Rect / Triangle half of the time (collections of
                    // different areal types)
                    let mut members: Vec<G> = ps.into_iter().take(3).enumerate().map(|(i, p)| if (f >> (9 + i)) & 1 == 0 { crate::conv::as_simple_type(&p) } else { G::Polygon(p) }).collect();
                    // ... and, half of the time, a Triangle or Rect of its own next to the board (first or last member)
                    if (f >> 13) & 1 == 0 && pts.len() >= 3 {
                        let sh = |c: C| (c.0 + 2 * g as i64 + 2, c.1);
                        let extra = if (f >> 14) & 1 == 0 { G::Triangle(sh(pts[0]), sh(pts[1]), sh(pts[2])) } else { G::Rect(sh(pts[0]), sh(pts[1])) };
                        let degenerate = match &extra {
                            G::Triangle(a, b, c) => (b.0 - a.0) * (c.1 - a.1) - (b.1 - a.1) * (c.0 - a.0) == 0,
                            G::Rect(a, b) => a.0 == b.0 || a.1 == b.1,
                            _ => true,
                        };
                        if !degenerate {
                            if (f >> 15) & 1 == 0 { members.push(extra) } else { members.insert(0, extra) }
                        }
                    }
                    Some(G::Coll(members))
                }
            }
        }
        10 => {
            // convex polygon: hull of the points
            let h = crate::refgeom::measure::hull(&pts);
            if h.len() < 3 {
                return None;
            }
            let mut r = h;
            r.push(r[0]);
            Some(G::Polygon(Poly::new(r, vec![])))
        }
        12 => {
            // convex shell with a triangular hole whose vertices are drawn from the shell's own feature
            // pool (vertices, lattice points on its edges) or its interior: holes touching the shell at a
            // vertex or in the middle of an edge, non-rectilinear. Validity is decided by the domain filter.
            let shell_pts: Vec<C> = raw.pts.iter().take(5).map(|p| (lattice_coord(p.1, g), lattice_coord(p.2, g))).collect();
            // the shell: the hull of the points, or (half of the time) a star-shaped, generally non-convex ring through all of
            // them (sorted by angle around their first point) - a reflex shell vertex next to a touching hole
            let h = if (f >> 16) & 1 == 0 {
                crate::refgeom::measure::hull(&shell_pts)
            } else {
                let d = distinct_prefix(&shell_pts, 5);
                if d.len() < 4 {
                    return None;
                }
                let c0 = d[0];
                let mut rest: Vec<C> = d[1..].to_vec();
                let half = |p: &C| -> i32 { let (dx, dy) = (p.0 - c0.0, p.1 - c0.1); if dy > 0 || (dy == 0 && dx > 0) { 0 } else { 1 } };
                rest.sort_by(|p, q| half(p).cmp(&half(q)).then_with(|| {
                    let cr = (p.0 - c0.0) * (q.1 - c0.1) - (p.1 - c0.1) * (q.0 - c0.0);
                    0.cmp(&cr).then_with(|| ((p.0 - c0.0).pow(2) + (p.1 - c0.1).pow(2)).cmp(&((q.0 - c0.0).pow(2) + (q.1 - c0.1).pow(2))))
                }));
                // the centre itself as a (reflex or convex) vertex
                rest.push(c0);
                rest
            };
            if h.len() < 3 {
                return None;
            }
            let mut ext = h;
            ext.push(ext[0]);
            let shell = G::Polygon(Poly::new(ext.clone(), vec![]));
            let mut pool2 = feature_pool(&shell);
            let loc = crate::refgeom::Located::new(&shell);
            if let Some(((x0, y0), (x1, y1))) = shell.bbox() {
                for x in x0..=x1 {
                    for y in y0..=y1 {
                        if loc.locate(crate::exact::HP::int((x, y))) == crate::refgeom::Loc::I {
                            pool2.push((x, y));
                        }
                    }
                }
            }
            if pool2.is_empty() || raw.pts.len() < 8 {
                return None;
            }
            let hp: Vec<C> = raw.pts[5..8].iter().map(|p| pool2[(p.3 as usize * pool2.len()) >> 8]).collect();
            let hh = crate::refgeom::measure::hull(&hp);
            if hh.len() < 3 {
                return None;
            }
            let mut hole = hh;
            hole.push(hole[0]);
            Some(G::Polygon(Poly::new(ext, vec![hole])))
        }
        _ => {
            // star-shaped ring around the first point (angular sort), possibly with a convex hole
            let d = distinct_prefix(&pts, 8);
            if d.len() < 4 {
                return None;
            }
            let c = d[0];
            let mut rest: Vec<C> = d[1..].to_vec();
            // sort by angle around c using exact half-plane + cross product
            let half = |p: &C| -> i32 {
                let (dx, dy) = (p.0 - c.0, p.1 - c.1);
                if dy > 0 || (dy == 0 && dx > 0) {
                    0
                } else {
                    1
                }
            };
            rest.sort_by(|p, q| {
                half(p).cmp(&half(q)).then_with(|| {
                    let cr = (p.0 - c.0) * (q.1 - c.1) - (p.1 - c.1) * (q.0 - c.0);
                    0.cmp(&cr).then_with(|| {
                        let dp = (p.0 - c.0).pow(2) + (p.1 - c.1).pow(2);
                        let dq = (q.0 - c.0).pow(2) + (q.1 - c.1).pow(2);
                        dp.cmp(&dq)
                    })
                })
            });
            rest.push(rest[0]);
            Some(G::Polygon(Poly::new(rest, vec![])))
        }
    }
}

/// the cell mask a primary operand is traced from: its raw mask, or (many-holes family) the full board with
/// sparse interior cells punched out (several separate holes, L-shaped holes, holes touching at corners)
pub fn effective_cells(raw: &RawGeom, g: usize) -> Vec<bool> {
    let f = raw.flags;
    let mut cells = raw.cells.clone();
    if (f >> 20) & 3 == 0 && g >= 3 {
        let punched = cells.clone();
        for j in 0..BOARD {
            for i in 0..BOARD {
                let k = j * BOARD + i;
                let interior = i >= 1 && j >= 1 && i + 1 < g && j + 1 < g;
                // punch density varies: sparse single-cell holes up to dense concave (L / U shaped) holes
                // whose bounding boxes contain other holes
                let keep = (crate::engine::splitmix64(f as u64 ^ (k as u64 * 0x9E37)) & 3) <= ((f >> 22) & 3) as u64;
                cells[k] = i < g && j < g && !(interior && punched[k] && keep);
            }
        }
    }
    cells
}

fn apply_mat(g: &G, m: &Mat) -> G {
    if *m == [1, 0, 0, 1] {
        return g.clone();
    }
    let g2 = if mat_axis_aligned(m) { g.clone() } else { rect_to_poly(g) };
    g2.map_coords(&|c| mat_apply(m, c))
}

fn rect_to_poly(g: &G) -> G {
    match g {
        G::Rect(a, b) => G::Polygon(Poly::new(rect_ring(*a, *b), vec![])),
        G::Coll(v) => G::Coll(v.iter().map(rect_to_poly).collect()),
        _ => g.clone(),
    }
}

/// A pair of valid model geometries with coincidence bias.
#[derive(Clone, Debug, Serialize, Deserialize)]
pub struct Pair {
    pub a: G,
    pub b: G,
}

/// *Generic position* family (1 draw in 8, chosen by three bits of the first operand's flags): the lattice is
/// refined 16-fold and every lattice point is moved by a pseudo-random offset of up to 1, 2 or 5 sub-units -
/// the same lattice point always to the same place, so shared vertices stay shared and rings stay closed,
/// while vertex-on-edge and collinear coincidences turn into near misses with generic slopes. Validity is
/// re-decided by the exact model afterwards (`in_relate_domain`).
pub static GEN_JITTERED: std::sync::atomic::AtomicU64 = std::sync::atomic::AtomicU64::new(0);
pub fn jitter_sel(flags: u32) -> Option<u64> {
    if (flags >> 24) & 7 == 0 {
        Some(crate::engine::splitmix64(flags as u64 ^ 0x6a09e667f3bcc908))
    } else {
        None
    }
}
pub fn jitter(g: &G, sel: u64) -> G {
    let amp = [1i64, 2, 5][(sel % 3) as usize];
    g.map_coords(&|c| {
        let h = crate::engine::splitmix64(sel ^ (c.0 as u64).wrapping_mul(0x9E3779B97F4A7C15) ^ (c.1 as u64).wrapping_mul(0xC2B2AE3D27D4EB4F));
        let (jx, jy) = ((h % (2 * amp as u64 + 1)) as i64 - amp, ((h >> 24) % (2 * amp as u64 + 1)) as i64 - amp);
        (c.0 * 16 + jx, c.1 * 16 + jy)
    })
}

pub fn build_pair(ra: &RawGeom, rb: &RawGeom, g: usize, m: &Mat, far: Option<(i64, i64)>) -> Option<Pair> {
    let a = build_geom(ra, g, &[], None)?;
    let pool = feature_pool(&a);
    let mut b = build_geom(rb, g, &pool, Some(&effective_cells(ra, g)))?;
    if let Some((dx, dy)) = far {
        b = b.map_coords(&|c| (c.0 + dx, c.1 + dy));
    }
    let (mut a, mut b) = (apply_mat(&a, m), apply_mat(&b, m));
    let jit = jitter_sel(ra.flags);
    if let Some(sel) = jit {
        a = jitter(&a, sel);
        b = jitter(&b, sel);
    }
    if !in_relate_domain(&a) || !in_relate_domain(&b) {
        return None;
    }
    if jit.is_some() {
        GEN_JITTERED.fetch_add(1, std::sync::atomic::Ordering::Relaxed);
    }
    Some(Pair { a, b })
}

/// How often the fallible builders behind the strategies produced / refused a value
/// (reported in the evidence: the rejection rate of the generator layer).
pub static GEN_ACCEPT: std::sync::atomic::AtomicU64 = std::sync::atomic::AtomicU64::new(0);
pub static GEN_REJECT: std::sync::atomic::AtomicU64 = std::sync::atomic::AtomicU64::new(0);
pub fn counted<T>(v: Option<T>) -> Option<T> {
    use std::sync::atomic::Ordering::Relaxed;
    if v.is_some() { GEN_ACCEPT.fetch_add(1, Relaxed) } else { GEN_REJECT.fetch_add(1, Relaxed) };
    v
}

pub fn pair_strategy() -> impl Strategy<Value = Pair> {
    (
        raw_geom(),
        raw_geom(),
        1usize..=max_g(),
        mat_strategy(),
        prop_oneof![
            12 => Just(None),
            1 => (-3i64..=3, -3i64..=3).prop_filter("zero", |d| *d != (0, 0)).prop_map(|(dx, dy)| Some((dx * 14, dy * 14))),
        ],
    )
        .prop_filter_map("out of domain", |(ra, rb, g, m, far)| counted(build_pair(&ra, &rb, g, &m, far)))
}

/// Pairs of the "operand inside a hole" kind, which `pair_strategy` meets about once in 10^5 cases: the first operand is a
/// polygon of the many-holes family (several holes, L- / U-shaped ones whose bounding boxes contain other holes), the second a
/// line string, polygon, triangle or line whose points are centres of cells enclosed by the first (inside one of its holes).
pub fn holes_pair_strategy() -> impl Strategy<Value = Pair> {
    (raw_geom(), raw_geom(), 4usize..=max_g().max(4), prop_oneof![Just(3u8), Just(4u8), Just(5u8), Just(8u8), Just(2u8), Just(10u8)], 0u32..4)
        .prop_filter_map("out of domain", |(mut ra, mut rb, g, kb, density)| {
            ra.kind = 5;
            ra.flags = (ra.flags & !(3 << 20) & !(3 << 22)) | (density << 22);
            rb.kind = kb;
            rb.flags = (rb.flags & !(7 << 1)) | (4 << 1);
            counted(build_pair(&ra, &rb, g, &[1, 0, 0, 1], None))
        })
}

/// The sharpest form of the above, built from a template on the 6x6 board: a polygon with a large L-shaped hole and a small
/// hole in the notch of the L (inside the large hole's bounding box, in any of the four mirror images, so that either hole comes
/// first in the ring order), and a line / line string that lies inside the SMALL hole.
pub fn nested_holes_pair_strategy() -> impl Strategy<Value = Pair> {
    (raw_geom(), 0u8..4, 0u8..3, 0u8..4).prop_filter_map("out of domain", |(mut ra, mirror, small, bsel)| {
        let g = 6usize;
        let mut cells = vec![false; BOARD * BOARD];
        for j in 0..g {
            for i in 0..g {
                cells[j * BOARD + i] = true;
            }
        }
        let m = |c: (usize, usize)| (if mirror & 1 == 1 { 5 - c.0 } else { c.0 }, if mirror & 2 == 2 { 5 - c.1 } else { c.1 });
        let big = [(1, 1), (1, 2), (1, 3), (1, 4), (2, 4), (3, 4), (4, 4)];
        let small_cells: Vec<(usize, usize)> = match small { 0 => vec![(3, 1), (4, 1)], 1 => vec![(3, 1), (3, 2)], _ => vec![(3, 1), (4, 1), (4, 2)] };
        for c in big.iter().chain(small_cells.iter()) {
            let (i, j) = m(*c);
            cells[j * BOARD + i] = false;
        }
        ra.kind = 5;
        ra.cells = cells;
        // (own mask as it is: not the many-holes punching)
        ra.flags |= 1 << 20;
        let a = build_geom(&ra, g, &[], None)?;
        let centre = |c: (usize, usize)| { let (i, j) = m(c); (2 * i as i64 + 1, 2 * j as i64 + 1) };
        let path: Vec<C> = small_cells.iter().map(|c| centre(*c)).collect();
        let b = match bsel {
            0 => G::Line(path[0], path[1]),
            1 => G::LineString(path.clone()),
            2 => G::LineString(path.iter().rev().cloned().collect()),
            _ => G::MultiLineString(vec![path.clone()]),
        };
        if !(in_relate_domain(&a) && in_relate_domain(&b)) {
            return None;
        }
        counted(Some(Pair { a, b }))
    })
}

/// A single valid model geometry.
pub fn geom_strategy() -> impl Strategy<Value = G> {
    (raw_geom(), 1usize..=max_g(), mat_strategy()).prop_filter_map("out of domain", |(r, g, m)| counted((move || {
        let a = build_geom(&r, g, &[], None)?;
        let mut a = apply_mat(&a, &m);
        let jit = jitter_sel(r.flags);
        if let Some(sel) = jit {
            a = jitter(&a, sel);
        }
        if in_relate_domain(&a) {
            if jit.is_some() {
                GEN_JITTERED.fetch_add(1, std::sync::atomic::Ordering::Relaxed);
            }
            Some(a)
        } else {
            None
        }
    })()))
}

/// valid areal geometry (Polygon or MultiPolygon only)
pub fn areal_strategy() -> impl Strategy<Value = G> {
    (raw_geom(), 1usize..=max_g(), mat_strategy(), prop_oneof![Just(5u8), Just(6u8), Just(10u8), Just(11u8), Just(12u8)]).prop_filter_map(
        "out of domain", |(mut r, g, m, kind)| counted((move || {
            r.kind = kind;
            let a = build_geom(&r, g, &[], None)?;
            let mut a = apply_mat(&a, &m);
            let jit = jitter_sel(r.flags);
            if let Some(sel) = jit {
                a = jitter(&a, sel);
            }
            if in_relate_domain(&a) {
                if jit.is_some() {
                    GEN_JITTERED.fetch_add(1, std::sync::atomic::Ordering::Relaxed);
                }
                Some(a)
            } else {
                None
            }
        })()),
    )
}

/// 1 partner in 16 is moved off the board (disjoint envelopes: the shortcut paths of relate / distance)
fn far_partner(b: G, flags: u32) -> G {
    if (flags >> 12) & 15 != 0 {
        return b;
    }
    let v = ((flags >> 16) & 63) as i64;
    let (dx, dy) = (((v % 7) - 3) * 14, (((v / 7) % 7) - 3) * 14);
    if (dx, dy) == (0, 0) {
        return b;
    }
    b.map_coords(&|c| (c.0 + dx, c.1 + dy))
}

/// One geometry and several coincidence-biased partners on the same board.
#[derive(Clone, Debug, Serialize, Deserialize)]
pub struct Scene {
    pub a: G,
    pub partners: Vec<G>,
}

pub fn scene_strategy(max_partners: usize) -> impl Strategy<Value = Scene> {
    (raw_geom(), proptest::collection::vec(raw_geom(), 1..=max_partners), 1usize..=max_g(), mat_strategy()).prop_filter_map(
        "out of domain", |(ra, rbs, g, m)| counted((move || {
            let a0 = build_geom(&ra, g, &[], None)?;
            let pool = feature_pool(&a0);
            let jit = jitter_sel(ra.flags);
            let post = |x: G| match jit {
                Some(sel) => jitter(&x, sel),
                None => x,
            };
            let a = post(apply_mat(&a0, &m));
            if !in_relate_domain(&a) {
                return None;
            }
            if jit.is_some() {
                GEN_JITTERED.fetch_add(1, std::sync::atomic::Ordering::Relaxed);
            }
            let mut partners = vec![];
            for rb in &rbs {
                if let Some(b) = build_geom(rb, g, &pool, Some(&effective_cells(&ra, g))) {
                    let b = far_partner(b, rb.flags);
                    let b = post(apply_mat(&b, &m));
                    if in_relate_domain(&b) {
                        partners.push(b);
                    }
                }
            }
            if partners.is_empty() {
                return None;
            }
            Some(Scene { a, partners })
        })()),
    )
}

/// Two valid areal geometries (Polygon / MultiPolygon) and simple line work on the same
/// board, all coincidence-biased towards the first one.
#[derive(Clone, Debug, Serialize, Deserialize)]
pub struct ArealScene {
    pub a: G,
    pub b: G,
    pub line: G,
}

pub fn areal_scene_strategy() -> impl Strategy<Value = ArealScene> {
    let areal_kind = || prop_oneof![3 => Just(5u8), 3 => Just(6u8), 1 => Just(10u8), 1 => Just(11u8), 2 => Just(12u8)];
    let line_kind = || prop_oneof![Just(2u8), Just(3u8), Just(4u8)];
    (raw_geom(), raw_geom(), raw_geom(), areal_kind(), areal_kind(), line_kind(), 1usize..=max_g(), mat_strategy()).prop_filter_map(
        "out of domain", |(mut ra, mut rb, mut rl, ka, kb, kl, g, m)| counted((move || {
            ra.kind = ka;
            rb.kind = kb;
            rl.kind = kl;
            let a0 = build_geom(&ra, g, &[], None)?;
            let pool = feature_pool(&a0);
            let b0 = build_geom(&rb, g, &pool, Some(&effective_cells(&ra, g)))?;
            // line work: always biased to A's features (runs along the boundary, through vertices)
            rl.flags &= !1;
            let l0 = build_geom(&rl, g, &pool, None)?;
            let (mut a, mut b, mut line) = (apply_mat(&a0, &m), apply_mat(&b0, &m), apply_mat(&l0, &m));
            let jit = jitter_sel(ra.flags);
            if let Some(sel) = jit {
                a = jitter(&a, sel);
                b = jitter(&b, sel);
                line = jitter(&line, sel);
            }
            if !in_relate_domain(&a) || !in_relate_domain(&b) || !in_relate_domain(&line) {
                return None;
            }
            if jit.is_some() {
                GEN_JITTERED.fetch_add(1, std::sync::atomic::Ordering::Relaxed);
            }
            Some(ArealScene { a, b, line })
        })()),
    )
}

/// Byte decoders (libFuzzer path): the same raw descriptions as the proptest
/// strategies, drawn from `arbitrary::Unstructured`, pushed through the same builders.
pub mod bytes {
    use super::*;
    use arbitrary::Unstructured;

    pub fn raw_geom(u: &mut Unstructured) -> arbitrary::Result<RawGeom> {
        let kind = u.int_in_range(0..=NKINDS - 1)?;
        let mask: u64 = u.arbitrary()?;
        let cells: Vec<bool> = (0..BOARD * BOARD).map(|i| (mask >> i) & 1 == 1).collect();
        let n = u.int_in_range(1..=9usize)?;
        let mut pts = vec![];
        for _ in 0..n {
            pts.push((u.arbitrary::<u8>()?, u.int_in_range(0..=16u8)?, u.int_in_range(0..=16u8)?, u.arbitrary::<u8>()?));
        }
        // keep empties rare on this path too
        let mut flags: u32 = u.arbitrary()?;
        if u.int_in_range(0..=15u8)? != 0 {
            flags |= 1 << 31;
        }
        Ok(RawGeom { kind, cells, pts, flags })
    }

    pub fn mat(u: &mut Unstructured) -> arbitrary::Result<Mat> {
        if u.int_in_range(0..=2u8)? == 0 {
            return Ok([1, 0, 0, 1]);
        }
        let m = [u.int_in_range(-3..=3i64)?, u.int_in_range(-3..=3i64)?, u.int_in_range(-3..=3i64)?, u.int_in_range(-3..=3i64)?];
        Ok(if mat_det(&m) == 0 { [1, 0, 0, 1] } else { m })
    }

    pub fn xf(u: &mut Unstructured) -> arbitrary::Result<Xf> {
        Ok(match u.int_in_range(0..=3u8)? {
            0 => Xf::ID,
            1 => Xf { d4: u.int_in_range(0..=7u8)?, k: 0, tx: 0, ty: 0 },
            2 => Xf { d4: u.int_in_range(0..=7u8)?, k: u.int_in_range(-30..=30i8)?, tx: u.int_in_range(-1000..=1000i64)?, ty: u.int_in_range(-1000..=1000i64)? },
            _ => Xf { d4: u.int_in_range(0..=7u8)?, k: u.int_in_range(-8..=8i8)?, tx: u.int_in_range(-(1i64 << 40)..=(1i64 << 40))?, ty: u.int_in_range(-(1i64 << 40)..=(1i64 << 40))? },
        })
    }

    pub fn pair(u: &mut Unstructured) -> arbitrary::Result<Option<Pair>> {
        let (ra, rb) = (raw_geom(u)?, raw_geom(u)?);
        let g = u.int_in_range(1..=6usize)?;
        let m = mat(u)?;
        let far = if u.int_in_range(0..=12u8)? == 0 {
            let d = (u.int_in_range(-3..=3i64)? * 14, u.int_in_range(-3..=3i64)? * 14);
            if d == (0, 0) { None } else { Some(d) }
        } else {
            None
        };
        Ok(build_pair(&ra, &rb, g, &m, far))
    }

    pub fn scene(u: &mut Unstructured, max_partners: usize) -> arbitrary::Result<Option<Scene>> {
        let ra = raw_geom(u)?;
        let g = u.int_in_range(1..=6usize)?;
        let m = mat(u)?;
        let n = u.int_in_range(1..=max_partners)?;
        let a0 = match build_geom(&ra, g, &[], None) {
            Some(a) => a,
            None => return Ok(None),
        };
        let pool = feature_pool(&a0);
        let jit = jitter_sel(ra.flags);
        let post = |x: G| match jit {
            Some(sel) => jitter(&x, sel),
            None => x,
        };
        let a = post(apply_mat(&a0, &m));
        if !in_relate_domain(&a) {
            return Ok(None);
        }
        let mut partners = vec![];
        for _ in 0..n {
            let rb = raw_geom(u)?;
            if let Some(b) = build_geom(&rb, g, &pool, Some(&effective_cells(&ra, g))) {
                let b = far_partner(b, rb.flags);
                let b = post(apply_mat(&b, &m));
                if in_relate_domain(&b) {
                    partners.push(b);
                }
            }
        }
        Ok(if partners.is_empty() { None } else { Some(Scene { a, partners }) })
    }

    pub fn areal_scene(u: &mut Unstructured) -> arbitrary::Result<Option<ArealScene>> {
        let (mut ra, mut rb, mut rl) = (raw_geom(u)?, raw_geom(u)?, raw_geom(u)?);
        ra.kind = *u.choose(&[5u8, 6, 10, 11, 12])?;
        rb.kind = *u.choose(&[5u8, 6, 10, 11, 12])?;
        rl.kind = *u.choose(&[2u8, 3, 4])?;
        let g = u.int_in_range(1..=6usize)?;
        let m = mat(u)?;
        let a0 = match build_geom(&ra, g, &[], None) { Some(x) => x, None => return Ok(None) };
        let pool = feature_pool(&a0);
        let b0 = match build_geom(&rb, g, &pool, Some(&effective_cells(&ra, g))) { Some(x) => x, None => return Ok(None) };
        rl.flags &= !1;
        let l0 = match build_geom(&rl, g, &pool, None) { Some(x) => x, None => return Ok(None) };
        let (a, b, line) = (apply_mat(&a0, &m), apply_mat(&b0, &m), apply_mat(&l0, &m));
        if !in_relate_domain(&a) || !in_relate_domain(&b) || !in_relate_domain(&line) {
            return Ok(None);
        }
        Ok(Some(ArealScene { a, b, line }))
    }

    /// a finite f64 from raw bits, forced into the exactness domain of the adaptive predicates
    pub fn f64_in_range(u: &mut Unstructured) -> arbitrary::Result<f64> {
        Ok(match u.int_in_range(0..=3u8)? {
            0 => u.int_in_range(-64..=64i32)? as f64,
            1 => {
                // small integer scaled by a power of two plus a few ulps
                let v = u.int_in_range(-1024..=1024i32)? as f64 * 2f64.powi(u.int_in_range(-40..=40i32)?);
                let n = u.int_in_range(-3..=3i64)?;
                if v == 0.0 { v } else { f64::from_bits((v.to_bits() as i64 + n) as u64) }
            }
            _ => {
                let bits: u64 = u.arbitrary()?;
                let v = f64::from_bits(bits);
                if v.is_finite() && (v == 0.0 || (v.abs() >= 2f64.powi(-300) && v.abs() <= 2f64.powi(300))) { v } else { (bits % 2048) as f64 - 1024.0 }
            }
        })
    }
}

#[cfg(test)]
mod reject_stats {
    use super::*;
    use proptest::strategy::ValueTree;
    use proptest::test_runner::TestRunner;
    #[test]
    fn areal_scene_reasons() {
        let mut runner = TestRunner::deterministic();
        let st = (raw_geom(), raw_geom(), raw_geom(), 1usize..=max_g(), mat_strategy(), 0usize..5, 0usize..5, 2u8..5);
        let kinds = [5u8, 6, 10, 11, 12];
        let mut cnt = std::collections::BTreeMap::<String, u32>::new();
        for _ in 0..20000 {
            let (mut ra, mut rb, mut rl, g, m, ka, kb, kl) = st.new_tree(&mut runner).unwrap().current();
            ra.kind = kinds[ka];
            rb.kind = kinds[kb];
            rl.kind = kl;
            let r = (|| {
                let a0 = match build_geom(&ra, g, &[], None) { Some(x) => x, None => return format!("a-build kind{}", ra.kind) };
                let pool = feature_pool(&a0);
                let b0 = match build_geom(&rb, g, &pool, Some(&effective_cells(&ra, g))) { Some(x) => x, None => return format!("b-build kind{}", rb.kind) };
                rl.flags &= !1;
                let l0 = match build_geom(&rl, g, &pool, None) { Some(x) => x, None => return format!("l-build kind{}", rl.kind) };
                let (a, b, line) = (apply_mat(&a0, &m), apply_mat(&b0, &m), apply_mat(&l0, &m));
                if !in_relate_domain(&a) { return format!("a-domain kind{}", ra.kind); }
                if !in_relate_domain(&b) { return format!("b-domain kind{}", rb.kind); }
                if !in_relate_domain(&line) { return format!("l-domain kind{}", rl.kind); }
                "ok".into()
            })();
            *cnt.entry(r).or_default() += 1;
        }
        for (k, v) in cnt { println!("REASON {k}: {v}"); }
    }
}
