//! Valid-by-construction areal inputs: polyomino outlines.
//!
//! A set of filled unit cells on a g×g board is traced into rings with the
//! filled cells taken as 4-connected: every 4-connected component becomes one
//! polygon, enclosed empty regions become its holes, and at a pinch vertex
//! (two cells of the same component touching diagonally) the boundary turns
//! right, so rings touch there instead of crossing. The result is a valid
//! MultiPolygon whose holes may touch the shell or each other at a vertex and
//! whose members may touch at vertices, with connected interiors.
//! Vertex (i,j) of the board has model coordinate (2i,2j) so that edge
//! midpoints and cell centres are lattice points too.
use crate::exact::C;
use crate::refgeom::measure::twice_area_ring;
use crate::refgeom::Poly;
use std::collections::HashMap;

pub const BOARD: usize = 8;

/// largest board edge the strategies draw (6 in the quick tier, 8 = BOARD in the thorough tier; set by the engine)
static MAX_G: std::sync::atomic::AtomicUsize = std::sync::atomic::AtomicUsize::new(6);
pub fn max_g() -> usize {
    MAX_G.load(std::sync::atomic::Ordering::Relaxed)
}
pub fn set_max_g(g: usize) {
    MAX_G.store(g.clamp(1, BOARD), std::sync::atomic::Ordering::Relaxed)
}

/// cells[j*BOARD+i] = filled; only i,j < g are looked at
pub fn trace(cells: &[bool], g: usize, merge_sel: u64) -> Vec<Poly> {
    let g = g.min(BOARD);
    let at = |i: i32, j: i32| -> bool {
        i >= 0 && j >= 0 && (i as usize) < g && (j as usize) < g && cells[(j as usize) * BOARD + i as usize]
    };
    // components
    let mut comp = vec![usize::MAX; BOARD * BOARD];
    let mut ncomp = 0;
    for j in 0..g {
        for i in 0..g {
            if at(i as i32, j as i32) && comp[j * BOARD + i] == usize::MAX {
                let id = ncomp;
                ncomp += 1;
                let mut stack = vec![(i as i32, j as i32)];
                comp[j * BOARD + i] = id;
                while let Some((x, y)) = stack.pop() {
                    for (dx, dy) in [(1, 0), (-1, 0), (0, 1), (0, -1)] {
                        let (nx, ny) = (x + dx, y + dy);
                        if at(nx, ny) && comp[ny as usize * BOARD + nx as usize] == usize::MAX {
                            comp[ny as usize * BOARD + nx as usize] = id;
                            stack.push((nx, ny));
                        }
                    }
                }
            }
        }
    }
    let mut out = vec![];
    let mut sel = merge_sel;
    for id in 0..ncomp {
        let inc = |i: i32, j: i32| -> bool { at(i, j) && comp[j as usize * BOARD + i as usize] == id };
        // directed boundary edges, component on the left
        let mut edges: Vec<((i32, i32), (i32, i32))> = vec![];
        for j in 0..g as i32 {
            for i in 0..g as i32 {
                if !inc(i, j) {
                    continue;
                }
                if !inc(i, j - 1) {
                    edges.push(((i, j), (i + 1, j)));
                }
                if !inc(i + 1, j) {
                    edges.push(((i + 1, j), (i + 1, j + 1)));
                }
                if !inc(i, j + 1) {
                    edges.push(((i + 1, j + 1), (i, j + 1)));
                }
                if !inc(i - 1, j) {
                    edges.push(((i, j + 1), (i, j)));
                }
            }
        }
        let mut from: HashMap<(i32, i32), Vec<usize>> = HashMap::new();
        for (k, e) in edges.iter().enumerate() {
            from.entry(e.0).or_default().push(k);
        }
        let mut used = vec![false; edges.len()];
        let mut rings: Vec<Vec<C>> = vec![];
        for start in 0..edges.len() {
            if used[start] {
                continue;
            }
            let mut ring: Vec<(i32, i32)> = vec![edges[start].0];
            let mut cur = start;
            loop {
                used[cur] = true;
                let (a, b) = edges[cur];
                ring.push(b);
                if b == edges[start].0 {
                    break;
                }
                let dir = (b.0 - a.0, b.1 - a.1);
                let right = (dir.1, -dir.0);
                let cands: Vec<usize> = from[&b].iter().cloned().filter(|k| !used[*k]).collect();
                let next = if cands.len() == 1 {
                    cands[0]
                } else {
                    // pinch vertex: turn right
                    *cands
                        .iter()
                        .find(|k| {
                            let e = edges[**k];
                            (e.1 .0 - e.0 .0, e.1 .1 - e.0 .1) == right
                        })
                        .unwrap_or(&cands[0])
                };
                cur = next;
            }
            // optionally merge collinear vertices
            let mut pts: Vec<(i32, i32)> = ring[..ring.len() - 1].to_vec();
            let mut keep = vec![true; pts.len()];
            let n = pts.len();
            for k in 0..n {
                let p = pts[(k + n - 1) % n];
                let c = pts[k];
                let q = pts[(k + 1) % n];
                let collinear = (c.0 - p.0) * (q.1 - c.1) - (c.1 - p.1) * (q.0 - c.0) == 0;
                if collinear {
                    sel = crate::engine::splitmix64(sel);
                    // merge_sel == 0: keep everything; otherwise drop ~3/4 of them
                    if merge_sel != 0 && sel % 4 != 0 {
                        keep[k] = false;
                    }
                }
            }
            let mut i = 0;
            pts.retain(|_| {
                let k = keep[i];
                i += 1;
                k
            });
            let mut r: Vec<C> = pts.iter().map(|p| (2 * p.0 as i64, 2 * p.1 as i64)).collect();
            r.push(r[0]);
            rings.push(r);
        }
        let mut ext = vec![];
        let mut holes = vec![];
        for r in rings {
            if twice_area_ring(&r) > 0 {
                ext = r;
            } else {
                holes.push(r);
            }
        }
        out.push(Poly { ext, holes });
    }
    out
}

/// cells enclosed by `cells` (empty cells not 4-connected to the outside)
pub fn enclosed(cells: &[bool], g: usize) -> Vec<bool> {
    let g = g.min(BOARD);
    let mut outside = vec![false; BOARD * BOARD];
    let mut stack = vec![];
    for k in 0..g {
        for (i, j) in [(k, 0), (k, g - 1), (0, k), (g - 1, k)] {
            if !cells[j * BOARD + i] && !outside[j * BOARD + i] {
                outside[j * BOARD + i] = true;
                stack.push((i as i32, j as i32));
            }
        }
    }
    while let Some((x, y)) = stack.pop() {
        for (dx, dy) in [(1, 0), (-1, 0), (0, 1), (0, -1)] {
            let (nx, ny) = (x + dx, y + dy);
            if nx >= 0 && ny >= 0 && (nx as usize) < g && (ny as usize) < g {
                let idx = ny as usize * BOARD + nx as usize;
                if !cells[idx] && !outside[idx] {
                    outside[idx] = true;
                    stack.push((nx, ny));
                }
            }
        }
    }
    let mut out = vec![false; BOARD * BOARD];
    for j in 0..g {
        for i in 0..g {
            let idx = j * BOARD + i;
            out[idx] = !cells[idx] && !outside[idx];
        }
    }
    out
}
