//! C03 — orientation and point-location predicates are exact for all f64 input.
use crate::conv::Xf;
use crate::engine::{guard, Obs, Property, Tier};
use crate::exact::big::{orient_f64, Dy};
use crate::gen::{areal_strategy, xf_strategy};
use crate::props::c11::{exact_intersection, Exact};
use crate::refgeom::G;
use geo::algorithm::winding_order::{Winding, WindingOrder};
use geo::coordinate_position::{coord_pos_relative_to_ring, CoordPos, CoordinatePosition};
use geo::kernels::{Kernel, Orientation};
use geo::{Contains, Coord, GeoNum, Intersects, Line, LineString, Polygon, Triangle};
use proptest::prelude::*;
use serde::{Deserialize, Serialize};

type P = (f64, f64);

#[derive(Clone, Debug, Serialize, Deserialize)]
pub enum Case {
    /// orient2d on three f64 points, segment/point and the integer kernels when the values are small integers
    Triple([P; 3]),
    /// segment-segment intersects
    Segs([P; 4]),
    /// rings[0] = shell, rest = holes (closed, simple, disjoint as generated), queries
    Rings { rings: Vec<Vec<P>>, queries: Vec<P> },
    Tri { tri: [P; 3], queries: Vec<P> },
    /// four points on one line, at the extremes of the exponent range where the predicates stay exact:
    /// `axis` Some(false) horizontal / Some(true) vertical with ARBITRARY finite doubles as positions `t`
    /// (one of the two orientation products is an exact zero), or None: lattice direction `dir` from `base`
    /// at integer positions `ti`, scaled by 2^k with k so small that every orientation product underflows to
    /// exactly 0, or large
    Collinear { axis: Option<bool>, t: [f64; 4], c: f64, base: (i64, i64), dir: (i64, i64), ti: [i64; 4], k: i32 },
}

pub struct C03;

/// move v by n units in the last place; zero stays zero (sub-normal neighbours of zero are outside the
/// domain: Shewchuk's expansions are exact only while no intermediate product underflows)
fn nudge(v: f64, n: i32) -> f64 {
    if v == 0.0 {
        return v;
    }
    let b = v.to_bits() as i64;
    // for both signs the magnitude grows with the bit pattern
    let nb = if (v > 0.0) == (n > 0) { b + n.abs() as i64 } else { b - n.abs() as i64 };
    f64::from_bits(nb as u64)
}

/// exactness domain of the adaptive predicates: zero, or magnitude within [2^-400, 2^400]
fn in_range(v: f64) -> bool {
    v == 0.0 || (v.is_finite() && v.abs() >= 2f64.powi(-400) && v.abs() <= 2f64.powi(400))
}

fn naive_orient(a: P, b: P, c: P) -> i32 {
    let v = (b.0 - a.0) * (c.1 - a.1) - (b.1 - a.1) * (c.0 - a.0);
    if v > 0.0 { 1 } else if v < 0.0 { -1 } else { 0 }
}

fn on_seg_exact(a: P, b: P, p: P) -> bool {
    orient_f64(a, b, p) == 0 && p.0 >= a.0.min(b.0) && p.0 <= a.0.max(b.0) && p.1 >= a.1.min(b.1) && p.1 <= a.1.max(b.1)
}

/// exact position of p relative to a closed ring: 0 boundary, 1 inside, -1 outside
fn ring_pos_exact(ring: &[P], p: P) -> i32 {
    if ring.len() == 1 {
        return if ring[0] == p { 0 } else { -1 };
    }
    if ring.windows(2).any(|w| on_seg_exact(w[0], w[1], p)) {
        return 0;
    }
    let mut inside = false;
    for w in ring.windows(2) {
        let (a, b) = (w[0], w[1]);
        if (a.1 > p.1) != (b.1 > p.1) {
            let s = orient_f64(a, b, p);
            if (b.1 > a.1 && s > 0) || (b.1 < a.1 && s < 0) {
                inside = !inside;
            }
        }
    }
    if inside { 1 } else { -1 }
}

/// exact sign of the shoelace sum of a closed ring
fn ring_area_sign(ring: &[P]) -> i32 {
    let mut s = Dy::zero();
    for w in ring.windows(2) {
        let t = Dy::from_f64(w[0].0).mul(&Dy::from_f64(w[1].1)).sub(&Dy::from_f64(w[1].0).mul(&Dy::from_f64(w[0].1)));
        s = s.add(&t);
    }
    s.signum()
}

pub(crate) fn triple_strategy() -> impl Strategy<Value = [P; 3]> {
    prop_oneof![
        // exactly collinear integers up to 2^52, perturbed by -2..2 ulps
        5 => (0u32..52, (0i64..1000, 0i64..1000), (-8i64..9, -8i64..9), (0i64..4096, 0i64..4096), [-2i32..3, -2i32..3, -2i32..3, -2i32..3, -2i32..3, -2i32..3])
            .prop_map(|(e, o, d, (s, t), k)| {
                let base = (1i64 << e) - 1;
                let lim = |v: i64| v.clamp(-(1 << 52) + 1, (1 << 52) - 1) as f64;
                let a = (lim(base + o.0), lim(base / 2 + o.1));
                let b = (lim(base + o.0 + d.0 * s), lim(base / 2 + o.1 + d.1 * s));
                let c = (lim(base + o.0 + d.0 * t), lim(base / 2 + o.1 + d.1 * t));
                [(nudge(a.0, k[0]), nudge(a.1, k[1])), (nudge(b.0, k[2]), nudge(b.1, k[3])), (nudge(c.0, k[4]), nudge(c.1, k[5]))]
            }),
        // query point within an ulp of a long segment
        4 => ((-1e6f64..1e6, -1e6f64..1e6), (-1e6f64..1e6, -1e6f64..1e6), 0.0f64..1.0, -2i32..3, -2i32..3).prop_map(|(a, b, t, kx, ky)| {
            let c = (a.0 + (b.0 - a.0) * t, a.1 + (b.1 - a.1) * t);
            [a, b, (nudge(c.0, kx), nudge(c.1, ky))]
        }),
        // Shewchuk's classic: points near (0.5, 0.5) against the segment (12,12)-(24,24)
        2 => (0i32..256, 0i32..256).prop_map(|(i, j)| [(nudge(0.5, i), nudge(0.5, j)), (12.0, 12.0), (24.0, 24.0)]),
        // small lattice (many exact collinear)
        2 => ((0i64..6, 0i64..6), (0i64..6, 0i64..6), (0i64..6, 0i64..6), xf_strategy()).prop_map(|(a, b, c, xf)| {
            let m = |p: (i64, i64)| { let q = xf.apply(p); (q.x, q.y) };
            [m(a), m(b), m(c)]
        }),
        1 => [(-1e3f64..1e3, -1e3f64..1e3), (-1e3f64..1e3, -1e3f64..1e3), (-1e3f64..1e3, -1e3f64..1e3)],
        // exactly collinear at very different magnitudes: multiples m * 2^e of one small integer direction (every product
        // is exact), the third one nudged by -1..1 ulps
        2 => ((-12i64..13, -12i64..13), [(-255i64..256, -60i32..40), (-255i64..256, -60i32..40), (-255i64..256, -60i32..40)], -1i32..2, -1i32..2).prop_map(|(d, m, kx, ky)| {
            let p = |(mi, e): (i64, i32)| ((d.0 * mi) as f64 * 2f64.powi(e), (d.1 * mi) as f64 * 2f64.powi(e));
            let c = p(m[2]);
            [p(m[0]), p(m[1]), (nudge(c.0, kx), nudge(c.1, ky))]
        }),
        // thin but non-degenerate: consecutive lattice points of a long diagonal, doubled area 1 or 2
        1 => (20u32..51, -2i64..3, -2i64..3).prop_map(|(e, u, v)| {
            let b = (1i64 << e) as f64;
            [(0.0, 0.0), (b + 1.0, b), (b + 2.0 + u as f64, b + 1.0 + v as f64)]
        }),
    ]
}

fn collinear_strategy() -> impl Strategy<Value = Case> {
    // any finite double, with ties: positions are drawn from a pool of three values and their neighbours
    let fin = || any::<u64>().prop_map(|b| { let v = f64::from_bits(b); if v.is_finite() { v } else { f64::from_bits(b & !(0x7ffu64 << 52) | (0x3ffu64 << 52)) } });
    prop_oneof![
        (any::<bool>(), [fin(), fin(), fin()], [0usize..3, 0usize..3, 0usize..3, 0usize..3], [-1i32..2, -1i32..2, -1i32..2, -1i32..2], fin()).prop_map(|(v, pool, idx, nd, c)| {
            let mut t = [0.0; 4];
            for i in 0..4 {
                let b = pool[idx[i]];
                // neighbours by bit pattern (zero and the subnormals included: comparisons are exact everywhere)
                let bits = b.to_bits() as i64 + nd[i] as i64;
                let n = f64::from_bits(bits as u64);
                t[i] = if n.is_finite() && (n == 0.0 || n.signum() == b.signum()) { n } else { b };
            }
            Case::Collinear { axis: Some(v), t, c, base: (0, 0), dir: (0, 0), ti: [0; 4], k: 0 }
        }),
        ((-256i64..256, -256i64..256), (-7i64..8, -7i64..8), [-30i64..31, -30i64..31, -30i64..31, -30i64..31], prop_oneof![-1070i32..-560, -60i32..480])
            .prop_map(|(base, dir, ti, k)| Case::Collinear { axis: None, t: [0.0; 4], c: 0.0, base, dir, ti, k }),
    ]
}

fn apply_ring(r: &[(i64, i64)], xf: &Xf) -> Vec<P> {
    r.iter().map(|c| { let q = xf.apply(*c); (q.x, q.y) }).collect()
}

fn ring_case_strategy() -> impl Strategy<Value = Case> {
    (areal_strategy(), xf_strategy(), any::<u16>(), -2i32..3, -2i32..3, proptest::collection::vec((any::<u16>(), any::<u16>(), -2i32..3, -2i32..3, 0u8..4), 1..24)).prop_filter_map(
        "not a polygon",
        |(g, xf, vsel, kx, ky, qs)| {
            let p = match g {
                G::Polygon(p) if !p.ext.is_empty() => p,
                G::MultiPolygon(v) if !v.is_empty() && !v[0].ext.is_empty() => v[0].clone(),
                _ => return None,
            };
            let mut rings: Vec<Vec<P>> = p.rings().map(|r| apply_ring(r, &xf)).collect();
            // perturb one shell vertex by a few ulps (keeps the ring simple: an ulp is far below the lattice spacing)
            let n = rings[0].len() - 1;
            let vi = (vsel as usize * n) >> 16;
            let nv = (nudge(rings[0][vi].0, kx), nudge(rings[0][vi].1, ky));
            rings[0][vi] = nv;
            if vi == 0 {
                rings[0][n] = nv;
            }
            // queries: lattice points of the bbox, points on edges (lattice vertices and edge midpoints), nudged
            let cs: Vec<(i64, i64)> = p.rings().flatten().cloned().collect();
            let (x0, x1) = (cs.iter().map(|c| c.0).min().unwrap() - 1, cs.iter().map(|c| c.0).max().unwrap() + 1);
            let (y0, y1) = (cs.iter().map(|c| c.1).min().unwrap() - 1, cs.iter().map(|c| c.1).max().unwrap() + 1);
            let segs: Vec<((i64, i64), (i64, i64))> = p.rings().flat_map(|r| r.windows(2).map(|w| (w[0], w[1])).collect::<Vec<_>>()).collect();
            let queries = qs
                .iter()
                .map(|(a, b, ux, uy, mode)| {
                    let base: P = match mode {
                        0 | 1 => {
                            let q = xf.apply((x0 + ((*a as i64 * (x1 - x0 + 1)) >> 16), y0 + ((*b as i64 * (y1 - y0 + 1)) >> 16)));
                            (q.x, q.y)
                        }
                        2 => {
                            // a point of an edge: vertex or midpoint (exact when the sum is even, else nearly on the edge)
                            let s = segs[(*a as usize * segs.len()) >> 16];
                            let (p0, p1) = (xf.apply(s.0), xf.apply(s.1));
                            if b & 1 == 0 { (p0.x, p0.y) } else { ((p0.x + p1.x) * 0.5, (p0.y + p1.y) * 0.5) }
                        }
                        _ => {
                            // same ordinate as a vertex (ray passes through vertices)
                            let v = cs[(*a as usize * cs.len()) >> 16];
                            let q = xf.apply((x0 + ((*b as i64 * (x1 - x0 + 1)) >> 16), v.1));
                            let q2 = xf.apply(v);
                            if xf.d4 % 2 == 0 { (q.x, q2.y) } else { (q2.x, q.y) }
                        }
                    };
                    if *mode == 0 { base } else { (nudge(base.0, *ux), nudge(base.1, *uy)) }
                })
                .collect();
            Some(Case::Rings { rings, queries })
        },
    )
}

impl Property for C03 {
    type Case = Case;
    const ID: &'static str = "C03";
    fn strategy(_tier: Tier) -> BoxedStrategy<Case> {
        prop_oneof![
            5 => triple_strategy().prop_map(Case::Triple),
            2 => [triple_strategy(), triple_strategy()].prop_map(|t| Case::Segs([t[0][0], t[0][1], t[0][2], t[1][2]])),
            2 => triple_strategy().prop_flat_map(|t| (Just(t), 0.0f64..1.0, 0.0f64..1.0, -2i32..3, -2i32..3)).prop_map(|(t, s, u, kx, ky)| {
                // second segment ends exactly / nearly on the first
                let e = (t[0].0 + (t[1].0 - t[0].0) * s, t[0].1 + (t[1].1 - t[0].1) * s);
                let _ = u;
                Case::Segs([t[0], t[1], t[2], (nudge(e.0, kx), nudge(e.1, ky))])
            }),
            4 => ring_case_strategy(),
            1 => collinear_strategy(),
            2 => (triple_strategy(), proptest::collection::vec((0.0f64..1.0, 0.0f64..1.0, -2i32..3, -2i32..3), 1..12)).prop_map(|(tri, qs)| {
                let queries = qs.iter().enumerate().map(|(i, (s, t, kx, ky))| {
                    // points on edges / vertices / inside, nudged
                    let (a, b) = (tri[i % 3], tri[(i + 1) % 3]);
                    let base = match i % 4 { 0 => a, 1 => (a.0 + (b.0 - a.0) * s, a.1 + (b.1 - a.1) * s), 2 => ((a.0 + b.0) * 0.5, (a.1 + b.1) * 0.5),
                        _ => (tri[0].0 + (tri[1].0 - tri[0].0) * s * t + (tri[2].0 - tri[0].0) * (1.0 - s) * t, tri[0].1 + (tri[1].1 - tri[0].1) * s * t + (tri[2].1 - tri[0].1) * (1.0 - s) * t) };
                    (nudge(base.0, *kx), nudge(base.1, *ky))
                }).collect();
                Case::Tri { tri, queries }
            }),
        ]
        .boxed()
    }
    fn quota(tier: Tier) -> u64 {
        tier.pick(3_000_000, 60_000_000)
    }
    fn rule() -> String {
        "Adversarial f64 inputs: exactly collinear integer triples up to 2^52 perturbed by -2..2 ulps, query points computed to lie \
         on a long segment then nudged by -2..2 ulps, Shewchuk's near-(0.5,0.5) grid, lattice triples under exact similarities, \
         random doubles; segment pairs built from those; valid polygons (with holes) from the scene generator under an exact \
         similarity with one vertex nudged by ulps, queried at lattice points, edge points, vertex ordinates, each nudged by ulps; \
         triangles with queries on vertices / edges / interior, nudged. Oracle: exact signs in arbitrary-precision dyadic arithmetic \
         (orientation determinant, crossing-number point location, shoelace sum). Checked: Kernel::orient2d for f64 (and for i64 / \
         i32 when the values are small integers), Line-Coord and Line-Line intersects, winding_order, coord_pos_relative_to_ring, \
         Polygon and Triangle coordinate_position / contains / intersects(Coord). Non-trivial = the naive double-precision \
         determinant has a different sign from the exact one, or the exact answer is collinear / on the boundary."
            .into()
    }
    fn must_hit() -> Vec<&'static str> {
        vec!["naive-sign-wrong", "exact-collinear", "exact-on-boundary", "int-kernel", "sub:Triple", "sub:Segs", "sub:Rings", "sub:Tri", "f32-kernel", "i128-kernel", "i16-kernel", "sub:Collinear", "collinear:all-products-underflow", "collinear:subnormal-position"]
    }
    fn check(c: &Case, obs: &mut Obs) {
        let co = |p: P| Coord { x: p.0, y: p.1 };
        let finite = |p: &P| in_range(p.0) && in_range(p.1);
        match c {
            Case::Triple(t) => {
                obs.label("sub:Triple");
                if !t.iter().all(finite) {
                    obs.label("skipped:out-of-domain");
                    return;
                }
                let [a, b, p] = *t;
                let want = orient_f64(a, b, p);
                let got = match <f64 as GeoNum>::Ker::orient2d(co(a), co(b), co(p)) {
                    Orientation::CounterClockwise => 1,
                    Orientation::Clockwise => -1,
                    Orientation::Collinear => 0,
                };
                if naive_orient(a, b, p) != want {
                    obs.label("naive-sign-wrong");
                    obs.nontrivial();
                }
                if want == 0 {
                    obs.label("exact-collinear");
                    obs.nontrivial();
                }
                obs.expect(got == want, "orient2d:f64|wrong-sign", || format!("got {got} exact {want}; {:?} bits {:?}", t, t.map(|p| (p.0.to_bits(), p.1.to_bits()))));
                // point on segment
                let on = on_seg_exact(a, b, p);
                let l = Line::new(co(a), co(b));
                let g1 = l.intersects(&co(p));
                obs.expect(g1 == on, "Line::intersects(Coord)|wrong", || format!("got {g1} exact {on}; {:?}", t));
                let g2 = co(p).intersects(&l);
                obs.expect(g2 == on, "Coord::intersects(Line)|wrong", || format!("got {g2} exact {on}; {:?}", t));
                let g3 = l.contains(&co(p));
                let want_c = on && p != a && p != b || (a == b && p == a);
                obs.expect(g3 == want_c, "Line::contains(Coord)|wrong", || format!("got {g3} exact {want_c}; {:?}", t));
                // the f32 instantiation of the robust kernel, on the f32 roundings of the same points (f32 -> f64 is exact,
                // so the oracle is the exact sign for the widened values)
                let t32: Vec<(f32, f32)> = t.iter().map(|p| (p.0 as f32, p.1 as f32)).collect();
                if t32.iter().all(|p| p.0.is_finite() && p.1.is_finite() && (p.0 == 0.0 || p.0.abs() > 1e-30) && (p.1 == 0.0 || p.1.abs() > 1e-30)) {
                    let w = |p: (f32, f32)| (p.0 as f64, p.1 as f64);
                    let want32 = orient_f64(w(t32[0]), w(t32[1]), w(t32[2]));
                    let c32 = |p: (f32, f32)| Coord { x: p.0, y: p.1 };
                    let g32 = match <f32 as GeoNum>::Ker::orient2d(c32(t32[0]), c32(t32[1]), c32(t32[2])) {
                        Orientation::CounterClockwise => 1,
                        Orientation::Clockwise => -1,
                        Orientation::Collinear => 0,
                    };
                    obs.label("f32-kernel");
                    obs.expect(g32 == want32, "orient2d:f32|wrong-sign", || format!("got {g32} exact {want32}; {:?}", t32));
                    let on32 = want32 == 0 && { let (a, b, p) = (t32[0], t32[1], t32[2]); p.0 >= a.0.min(b.0) && p.0 <= a.0.max(b.0) && p.1 >= a.1.min(b.1) && p.1 <= a.1.max(b.1) };
                    let gl = Line::new(c32(t32[0]), c32(t32[1])).intersects(&c32(t32[2]));
                    obs.expect(gl == on32, "Line<f32>::intersects(Coord)|wrong", || format!("got {gl} exact {on32}; {:?}", t32));
                }
                // i128: every integer-valued triple fits (|v| < 2^53, products < 2^108)
                if t.iter().all(|p| p.0.fract() == 0.0 && p.1.fract() == 0.0 && p.0.abs() < 9.1e15 && p.1.abs() < 9.1e15) {
                    let v: Vec<i128> = t.iter().flat_map(|p| [p.0 as i128, p.1 as i128]).collect();
                    let gi = match <i128 as GeoNum>::Ker::orient2d(Coord { x: v[0], y: v[1] }, Coord { x: v[2], y: v[3] }, Coord { x: v[4], y: v[5] }) {
                        Orientation::CounterClockwise => 1,
                        Orientation::Clockwise => -1,
                        Orientation::Collinear => 0,
                    };
                    obs.label("i128-kernel");
                    obs.expect(gi == want, "orient2d:i128|wrong-sign", || format!("got {gi} exact {want}; {:?}", v));
                    let li = Line::new(Coord { x: v[0], y: v[1] }, Coord { x: v[2], y: v[3] });
                    let gi2 = li.intersects(&Coord { x: v[4], y: v[5] });
                    obs.expect(gi2 == on, "Line<i128>::intersects(Coord)|wrong", || format!("got {gi2} exact {on}; {:?}", v));
                }
                // integer kernels when the values are integers with products that fit
                let as_int = |v: f64, lim: f64| if v.fract() == 0.0 && v.abs() < lim { Some(v as i64) } else { None };
                let ints: Vec<Option<i64>> = t.iter().flat_map(|p| [as_int(p.0, (1u64 << 30) as f64), as_int(p.1, (1u64 << 30) as f64)]).collect();
                if ints.iter().all(|v| v.is_some()) {
                    obs.label("int-kernel");
                    let v: Vec<i64> = ints.into_iter().map(|x| x.unwrap()).collect();
                    let gi = match <i64 as GeoNum>::Ker::orient2d(Coord { x: v[0], y: v[1] }, Coord { x: v[2], y: v[3] }, Coord { x: v[4], y: v[5] }) {
                        Orientation::CounterClockwise => 1,
                        Orientation::Clockwise => -1,
                        Orientation::Collinear => 0,
                    };
                    obs.expect(gi == want, "orient2d:i64|wrong-sign", || format!("got {gi} exact {want}; {:?}", v));
                    if v.iter().all(|x| x.abs() < (1 << 14)) {
                        let w: Vec<i32> = v.iter().map(|x| *x as i32).collect();
                        let g32 = match <i32 as GeoNum>::Ker::orient2d(Coord { x: w[0], y: w[1] }, Coord { x: w[2], y: w[3] }, Coord { x: w[4], y: w[5] }) {
                            Orientation::CounterClockwise => 1,
                            Orientation::Clockwise => -1,
                            Orientation::Collinear => 0,
                        };
                        obs.expect(g32 == want, "orient2d:i32|wrong-sign", || format!("got {g32} exact {want}; {:?}", w));
                        let li = Line::new(Coord { x: w[0], y: w[1] }, Coord { x: w[2], y: w[3] });
                        let gi2 = li.intersects(&Coord { x: w[4], y: w[5] });
                        obs.expect(gi2 == on, "Line<i32>::intersects(Coord)|wrong", || format!("got {gi2} exact {on}; {:?}", w));
                        // isize (same width as i64 here) and, for |v| < 63, i16
                        let z: Vec<isize> = v.iter().map(|x| *x as isize).collect();
                        let gz = match <isize as GeoNum>::Ker::orient2d(Coord { x: z[0], y: z[1] }, Coord { x: z[2], y: z[3] }, Coord { x: z[4], y: z[5] }) {
                            Orientation::CounterClockwise => 1,
                            Orientation::Clockwise => -1,
                            Orientation::Collinear => 0,
                        };
                        obs.expect(gz == want, "orient2d:isize|wrong-sign", || format!("got {gz} exact {want}; {:?}", z));
                        if v.iter().all(|x| x.abs() < 63) {
                            let h: Vec<i16> = v.iter().map(|x| *x as i16).collect();
                            let gh = match <i16 as GeoNum>::Ker::orient2d(Coord { x: h[0], y: h[1] }, Coord { x: h[2], y: h[3] }, Coord { x: h[4], y: h[5] }) {
                                Orientation::CounterClockwise => 1,
                                Orientation::Clockwise => -1,
                                Orientation::Collinear => 0,
                            };
                            obs.label("i16-kernel");
                            obs.expect(gh == want, "orient2d:i16|wrong-sign", || format!("got {gh} exact {want}; {:?}", h));
                            let lh = Line::new(Coord { x: h[0], y: h[1] }, Coord { x: h[2], y: h[3] });
                            let l2 = Line::new(Coord { x: h[4], y: h[5] }, Coord { x: h[0], y: h[3] });
                            // segment-segment on the integer type agrees with the f64 answer for the same (exactly representable) values
                            let f = |q: Coord<i16>| Coord { x: q.x as f64, y: q.y as f64 };
                            let want_ll = Line::new(f(lh.start), f(lh.end)).intersects(&Line::new(f(l2.start), f(l2.end)));
                            let got_ll = lh.intersects(&l2);
                            obs.expect(got_ll == want_ll, "Line<i16>::intersects(Line)|differs-from-f64", || format!("got {got_ll} f64 {want_ll}; {:?} {:?}", lh, l2));
                        }
                    }
                }
            }
            Case::Segs(s) => {
                obs.label("sub:Segs");
                if !s.iter().all(finite) {
                    obs.label("skipped:out-of-domain");
                    return;
                }
                let want = exact_intersection(s[0], s[1], s[2], s[3]) != Exact::None;
                let (l1, l2) = (Line::new(co(s[0]), co(s[1])), Line::new(co(s[2]), co(s[3])));
                let got = l1.intersects(&l2);
                let touching = [orient_f64(s[0], s[1], s[2]), orient_f64(s[0], s[1], s[3]), orient_f64(s[2], s[3], s[0]), orient_f64(s[2], s[3], s[1])].contains(&0);
                if touching {
                    obs.label("exact-collinear");
                    obs.nontrivial();
                }
                if [naive_orient(s[0], s[1], s[2]) != orient_f64(s[0], s[1], s[2]), naive_orient(s[0], s[1], s[3]) != orient_f64(s[0], s[1], s[3])].contains(&true) {
                    obs.label("naive-sign-wrong");
                    obs.nontrivial();
                }
                obs.expect(got == want, "Line::intersects(Line)|wrong", || format!("got {got} exact {want}; {:?}", s));
                let got2 = l2.intersects(&l1);
                obs.expect(got2 == want, "Line::intersects(Line)|wrong-swapped", || format!("got {got2} exact {want}; {:?}", s));
                let li = geo::algorithm::line_intersection::line_intersection(l1, l2).is_some();
                obs.expect(li == want, "line_intersection.is_some()|wrong", || format!("got {li} exact {want}; {:?}", s));
            }
            Case::Collinear { axis, t, c: cc, base, dir, ti, k } => {
                obs.label("sub:Collinear");
                // positions along the line (exactly comparable) and the four points
                let (pos, pts): (Vec<f64>, Vec<P>) = match axis {
                    Some(vertical) => {
                        if !t.iter().all(|v| v.is_finite()) || !cc.is_finite() {
                            obs.label("skipped:out-of-domain");
                            return;
                        }
                        obs.label(if *vertical { "collinear:vertical" } else { "collinear:horizontal" });
                        if t.iter().any(|v| *v != 0.0 && v.abs() < f64::MIN_POSITIVE) {
                            obs.label("collinear:subnormal-position");
                        }
                        (t.to_vec(), t.iter().map(|v| if *vertical { (*cc, *v) } else { (*v, *cc) }).collect())
                    }
                    None => {
                        // 2^k as a double: exact for k >= -1074; every coordinate is an integer below 2^13 times it
                        let in_dom = (-1070..-560).contains(k) || (-60..480).contains(k);
                        if !in_dom || base.0.abs() > 256 || base.1.abs() > 256 || dir.0.abs() > 8 || dir.1.abs() > 8 || ti.iter().any(|v| v.abs() > 32) {
                            obs.label("skipped:out-of-domain");
                            return;
                        }
                        obs.label(if *k < -500 { "collinear:all-products-underflow" } else { "collinear:lattice-large" });
                        let sc = |m: i64| if *k >= -1000 { m as f64 * 2f64.powi(*k) } else { (m as f64 * 2f64.powi(-1000)) * 2f64.powi(*k + 1000) };
                        let pts: Vec<P> = ti.iter().map(|q| (sc(base.0 + q * dir.0), sc(base.1 + q * dir.1))).collect();
                        // a position that is monotone along the line: the parameter itself (or all equal when dir = 0)
                        let pos: Vec<f64> = ti.iter().map(|q| if *dir == (0, 0) { 0.0 } else { *q as f64 }).collect();
                        (pos, pts)
                    }
                };
                obs.nontrivial();
                obs.label("exact-collinear");
                let (lo, hi) = (pos[0].min(pos[1]), pos[0].max(pos[1]));
                let on = pos[2] >= lo && pos[2] <= hi;
                let (a, b, p, q) = (pts[0], pts[1], pts[2], pts[3]);
                let ctx = || format!("{:?} bits {:?}", pts, pts.iter().map(|p| (p.0.to_bits(), p.1.to_bits())).collect::<Vec<_>>());
                let got_o = <f64 as GeoNum>::Ker::orient2d(co(a), co(b), co(p));
                obs.expect(got_o == Orientation::Collinear, "orient2d:f64|collinear-extreme-scale", || format!("got {:?}; {}", got_o, ctx()));
                let l = Line::new(co(a), co(b));
                let g1 = l.intersects(&co(p));
                obs.expect(g1 == on, "Line::intersects(Coord)|wrong", || format!("got {g1} exact {on}; {}", ctx()));
                let g2 = co(p).intersects(&l);
                obs.expect(g2 == on, "Coord::intersects(Line)|wrong", || format!("got {g2} exact {on}; {}", ctx()));
                let g3 = l.contains(&co(p));
                let want_c = (on && p != a && p != b) || (a == b && p == a);
                obs.expect(g3 == want_c, "Line::contains(Coord)|wrong", || format!("got {g3} exact {want_c}; {}", ctx()));
                // two collinear segments meet iff their parameter intervals overlap
                let (lo2, hi2) = (pos[2].min(pos[3]), pos[2].max(pos[3]));
                let meet = lo.max(lo2) <= hi.min(hi2);
                let l2 = Line::new(co(p), co(q));
                let g4 = l.intersects(&l2);
                obs.expect(g4 == meet, "Line::intersects(Line)|wrong", || format!("got {g4} exact {meet}; {}", ctx()));
                let g5 = l2.intersects(&l);
                obs.expect(g5 == meet, "Line::intersects(Line)|wrong-swapped", || format!("got {g5} exact {meet}; {}", ctx()));
                let li = geo::algorithm::line_intersection::line_intersection(l, l2).is_some();
                obs.expect(li == meet, "line_intersection.is_some()|wrong", || format!("got {li} exact {meet}; {}", ctx()));
                // a horizontal ring edge: the point is on the boundary of the flat closed ring a-b-a iff on the segment
                if a != b {
                    let ring = LineString::new(vec![co(a), co(b), co(a)]);
                    let gp = coord_pos_relative_to_ring(co(p), &ring);
                    obs.expect((gp == CoordPos::OnBoundary) == on && gp != CoordPos::Inside, "coord_pos_relative_to_ring|flat-ring", || format!("got {:?}, on the segment = {on}; {}", gp, ctx()));
                }
            }
            Case::Rings { rings, queries } => {
                obs.label("sub:Rings");
                if rings.is_empty() || rings.iter().any(|r| r.len() < 4 || r.first() != r.last() || !r.iter().all(finite)) || !queries.iter().all(finite) {
                    obs.label("skipped:out-of-domain");
                    return;
                }
                let ls: Vec<LineString<f64>> = rings.iter().map(|r| LineString::new(r.iter().map(|p| co(*p)).collect())).collect();
                let poly = Polygon::new(ls[0].clone(), ls[1..].to_vec());
                // winding order of every ring
                for (i, r) in rings.iter().enumerate() {
                    let s = ring_area_sign(r);
                    let want = if s > 0 { Some(WindingOrder::CounterClockwise) } else if s < 0 { Some(WindingOrder::Clockwise) } else { None };
                    let got = ls[i].winding_order();
                    if s != 0 {
                        obs.expect(got == want, "winding_order|wrong", || format!("got {:?} want {:?}; ring {:?}", got, want, r));
                    }
                }
                for q in queries {
                    let pe = ring_pos_exact(&rings[0], *q);
                    let want_ring = match pe { 0 => CoordPos::OnBoundary, 1 => CoordPos::Inside, _ => CoordPos::Outside };
                    let got_ring = coord_pos_relative_to_ring(co(*q), &ls[0]);
                    // non-triviality: the query is on a boundary, or a naive orientation against some edge is wrong
                    let mut nt = false;
                    for r in rings.iter() {
                        for w in r.windows(2) {
                            let e = orient_f64(w[0], w[1], *q);
                            if naive_orient(w[0], w[1], *q) != e {
                                obs.label("naive-sign-wrong");
                                nt = true;
                            }
                        }
                    }
                    obs.expect(got_ring == want_ring, "coord_pos_relative_to_ring|wrong", || format!("got {:?} exact {:?}; q={:?} ring={:?}", got_ring, want_ring, q, rings[0]));
                    // polygon position
                    let mut want = want_ring;
                    if pe == 1 {
                        for h in &rings[1..] {
                            match ring_pos_exact(h, *q) {
                                0 => { want = CoordPos::OnBoundary; break; }
                                1 => { want = CoordPos::Outside; break; }
                                _ => {}
                            }
                        }
                    }
                    if want == CoordPos::OnBoundary {
                        obs.label("exact-on-boundary");
                        nt = true;
                    }
                    if nt {
                        obs.nontrivial();
                    }
                    let got = poly.coordinate_position(&co(*q));
                    obs.expect(got == want, "Polygon::coordinate_position|wrong", || format!("got {:?} exact {:?}; q={:?} rings={:?}", got, want, q, rings));
                    let gc = poly.contains(&co(*q));
                    obs.expect(gc == (want == CoordPos::Inside), "Polygon::contains(Coord)|wrong", || format!("got {gc} exact {:?}; q={:?} rings={:?}", want, q, rings));
                    let gi = poly.intersects(&co(*q));
                    obs.expect(gi == (want != CoordPos::Outside), "Polygon::intersects(Coord)|wrong", || format!("got {gi} exact {:?}; q={:?} rings={:?}", want, q, rings));
                }
            }
            Case::Tri { tri, queries } => {
                obs.label("sub:Tri");
                if !tri.iter().all(finite) || !queries.iter().all(finite) || orient_f64(tri[0], tri[1], tri[2]) == 0 {
                    obs.label("skipped:degenerate-triangle");
                    return;
                }
                let t = match guard(|| Triangle::new(co(tri[0]), co(tri[1]), co(tri[2]))) {
                    Ok(t) => t,
                    Err(_) => return,
                };
                let ring = [tri[0], tri[1], tri[2], tri[0]];
                for q in queries {
                    let pe = ring_pos_exact(&ring, *q);
                    let want = match pe { 0 => CoordPos::OnBoundary, 1 => CoordPos::Inside, _ => CoordPos::Outside };
                    if pe == 0 {
                        obs.label("exact-on-boundary");
                        obs.nontrivial();
                    }
                    if ring.windows(2).any(|w| naive_orient(w[0], w[1], *q) != orient_f64(w[0], w[1], *q)) {
                        obs.label("naive-sign-wrong");
                        obs.nontrivial();
                    }
                    let got = t.coordinate_position(&co(*q));
                    obs.expect(got == want, "Triangle::coordinate_position|wrong", || format!("got {:?} exact {:?}; q={:?} tri={:?}", got, want, q, tri));
                    let gc = t.contains(&co(*q));
                    obs.expect(gc == (want == CoordPos::Inside), "Triangle::contains(Coord)|wrong", || format!("got {gc} exact {:?}; q={:?} tri={:?}", want, q, tri));
                    let gi = t.intersects(&co(*q));
                    obs.expect(gi == (want != CoordPos::Outside), "Triangle::intersects(Coord)|wrong", || format!("got {gi} exact {:?}; q={:?} tri={:?}", want, q, tri));
                }
            }
        }
    }
}
