//! C05 — planar area and ring orientation are exact up to rounding.
use crate::conv::{to_geo, wkt, Xf};
use crate::engine::{guard, Obs, Property, Tier};
use crate::exact::C;
use crate::gen::{areal_strategy, geom_strategy, xf_strategy};
use crate::refgeom::measure::{twice_area_poly, twice_area_ring};
use crate::refgeom::{rect_ring, tri_ring, Poly, G};
use geo::algorithm::orient::{Direction, Orient};
use geo::algorithm::winding_order::{Winding, WindingOrder};
use geo::{Area, Geometry, LineString};
use proptest::prelude::*;
use serde::{Deserialize, Serialize};
use serde_json::{json, Value};

#[derive(Clone, Debug, Serialize, Deserialize)]
pub struct Case {
    pub g: G,
    pub xf: Xf,
    /// ring start rotation for the winding checks
    pub rot: u8,
    /// repeated points: bit 0 pivot (least vertex) once more, bit 1 pivot twice more, bit 2 the vertex after it,
    /// bit 3 the vertex before it, bit 4 an extra copy of the closing vertex
    pub dup: u8,
    /// when present the case is an ill-conditioned f64 sliver (shell, and a hole made of the same triple shrunk towards its
    /// centroid is not possible exactly, so: shell only, or the triple as the hole of a large square): `g` is then ignored
    #[serde(default)]
    pub sliver: Option<([(f64, f64); 3], bool)>,
}

pub struct C05;

/// reverse ring i of the geometry when bit i of `flips` is set
pub fn flip_rings(g: &G, flips: u32) -> G {
    let mut k = 0u32;
    let mut flip = |r: &Vec<C>| -> Vec<C> {
        let f = (flips >> (k % 32)) & 1 == 1;
        k += 1;
        let mut r = r.clone();
        if f {
            r.reverse();
        }
        r
    };
    fn go(g: &G, flip: &mut dyn FnMut(&Vec<C>) -> Vec<C>) -> G {
        let fp = |p: &Poly, flip: &mut dyn FnMut(&Vec<C>) -> Vec<C>| Poly { ext: flip(&p.ext), holes: p.holes.iter().map(|h| flip(h)).collect() };
        match g {
            G::Polygon(p) => G::Polygon(fp(p, flip)),
            G::MultiPolygon(v) => G::MultiPolygon(v.iter().map(|p| fp(p, flip)).collect()),
            G::Coll(v) => G::Coll(v.iter().map(|m| go(m, flip)).collect()),
            _ => g.clone(),
        }
    }
    go(g, &mut flip)
}

/// exact (twice signed area with geo's sign convention, sum of |edge determinants| after shifting to the ring start)
fn exact_area(g: &G, refl: bool) -> (i128, i128) {
    fn ring_abs_terms(r: &[C]) -> i128 {
        if r.is_empty() {
            return 0;
        }
        let o = r[0];
        r.windows(2).map(|w| ((w[0].0 - o.0) as i128 * (w[1].1 - o.1) as i128 - (w[1].0 - o.0) as i128 * (w[0].1 - o.1) as i128).abs()).sum()
    }
    let poly = |p: &Poly| -> (i128, i128) {
        if p.ext.is_empty() {
            return (0, 0);
        }
        // a reflection reverses every ring, so the sign of the shell flips with it
        let sign = if (twice_area_ring(&p.ext) < 0) != refl { -1 } else { 1 };
        (sign * twice_area_poly(p), p.rings().map(|r| ring_abs_terms(r)).sum())
    };
    match g {
        G::Polygon(p) => poly(p),
        G::MultiPolygon(v) => v.iter().map(poly).fold((0, 0), |a, b| (a.0 + b.0, a.1 + b.1)),
        G::Rect(a, b) => {
            let r = rect_ring(*a, *b);
            (twice_area_ring(&r).abs(), ring_abs_terms(&r))
        }
        G::Triangle(a, b, c) => {
            let r = tri_ring(*a, *b, *c);
            // the triangle is built as the tuple struct Triangle(a, b, c) (no re-ordering, unlike Triangle::new):
            // signed by its stored vertex order, which a reflection reverses
            let sign = if refl { -1 } else { 1 };
            (sign * twice_area_ring(&r), ring_abs_terms(&r))
        }
        G::Coll(v) => v.iter().map(|m| exact_area(m, refl)).fold((0, 0), |a, b| (a.0 + b.0, a.1 + b.1)),
        _ => (0, 0),
    }
}

fn exact_unsigned(g: &G) -> i128 {
    match g {
        G::MultiPolygon(v) => v.iter().map(|p| exact_area(&G::Polygon(p.clone()), false).0.abs()).sum(),
        // geo documents the collection's unsigned area as the sum of the members' unsigned areas
        G::Coll(v) => v.iter().map(exact_unsigned).sum(),
        _ => exact_area(g, false).0.abs(),
    }
}

impl Property for C05 {
    type Case = Case;
    const ID: &'static str = "C05";
    fn strategy(_tier: Tier) -> BoxedStrategy<Case> {
        let geom = prop_oneof![
            6 => areal_strategy(),
            3 => geom_strategy(),
            2 => proptest::collection::vec(prop_oneof![areal_strategy(), geom_strategy()], 0..4).prop_map(G::Coll),
        ];
        let lattice = (geom, any::<u32>(), xf_strategy(), any::<u8>(), prop_oneof![3 => Just(0u8), 2 => 0u8..32])
            .prop_map(|(g, flips, xf, rot, dup)| Case { g: flip_rings(&g, flips), xf, rot, dup, sliver: None });
        // 1 case in 16: triangles whose orientation sits in the last bits (exactly collinear integer triples nudged by ulps, query
        // points an ulp off a long segment, thin lattice triangles at 2^50: C03's family), as a shell or as a hole
        let sliver = (crate::props::c03::triple_strategy(), any::<bool>()).prop_map(|(t, as_hole)| Case { g: G::MultiPoint(vec![]), xf: Xf::ID, rot: 0, dup: 0, sliver: Some((t, as_hole)) });
        prop_oneof![15 => lattice.boxed(), 1 => sliver.boxed()].boxed()
    }
    fn quota(tier: Tier) -> u64 {
        tier.pick(4_000_000, 60_000_000)
    }
    fn rule() -> String {
        "Valid polygons / multipolygons (polyomino outlines with holes, hulls, star rings, integer-matrix images) with the direction \
         of every ring chosen independently, Rects, Triangles, other types and collections of them, mapped by an exact similarity \
         (translations up to 2^40, 2^k scaling, D4). Oracle: exact twice-area in i128 on the lattice, scaled by 4^k. Checked: \
         signed_area (sign of the shell, holes subtracted), unsigned_area, Rect/Triangle vs their polygon form, collections = sums; \
         for every ring (start rotated so the least vertex takes varying positions, optionally with repeated points around it): \
         winding_order / is_cw / is_ccw vs the exact sign; orient(Default/Reversed): same cyclic vertex sequence, closed, requested \
         exact orientation. Non-trivial = a hole wound like its shell, or translation >= 2^26, or the least vertex first/last."
            .into()
    }
    fn must_hit() -> Vec<&'static str> {
        vec!["hole-wound-like-shell", "translated>=2^26", "least-vertex-first-or-last", "cw-shell"]
    }
    fn show(c: &Case) -> Value {
        json!({"g": wkt(&c.g), "xf": c.xf, "rot": c.rot, "dup": c.dup})
    }
    fn check(c: &Case, obs: &mut Obs) {
        if let Some((t, as_hole)) = &c.sliver {
            check_sliver(t, *as_hole, obs);
            return;
        }
        let gg = to_geo(&c.g, &c.xf);
        let tn = c.g.type_name();
        obs.label(format!("type:{tn}"));
        let s2 = 4f64.powi(c.xf.k as i32);
        let (a2, terms) = exact_area(&c.g, c.xf.reflects());
        let want_signed = a2 as f64 * 0.5 * s2;
        let want_unsigned = exact_unsigned(&c.g) as f64 * 0.5 * s2;
        let tol = 1e-12 * (terms as f64 + 1.0) * s2;
        let ctx = || format!("g={} xf={:?}", wkt(&c.g), c.xf);
        if c.xf.tx.unsigned_abs().max(c.xf.ty.unsigned_abs()) >= (1 << 26) && terms > 0 {
            obs.label("translated>=2^26");
            obs.nontrivial();
        }
        let r = guard(std::panic::AssertUnwindSafe(|| (gg.signed_area(), gg.unsigned_area())));
        match r {
            Ok((sa, ua)) => {
                obs.expect((sa - want_signed).abs() <= tol, &format!("signed_area:{tn}|value"), || format!("got {sa} want {want_signed} (tol {tol}); {}", ctx()));
                obs.expect((ua - want_unsigned).abs() <= tol, &format!("unsigned_area:{tn}|value"), || format!("got {ua} want {want_unsigned} (tol {tol}); {}", ctx()));
                if matches!(c.g, G::Polygon(_) | G::Rect(..) | G::Triangle(..)) {
                    obs.expect(ua == sa.abs(), &format!("unsigned_area:{tn}|not-abs-of-signed"), || format!("{ua} vs {sa}; {}", ctx()));
                }
            }
            Err(p) => obs.fail(format!("area:{tn}|panic|{}", p.site()), format!("{} {}", p, ctx())),
        }
        // Rect / Triangle equal their polygon form
        match &gg {
            Geometry::Rect(r) => {
                let (a, b) = (r.signed_area(), r.to_polygon().signed_area());
                obs.expect((a - b).abs() <= tol, "signed_area:Rect|differs-from-polygon-form", || format!("{a} vs {b}; {}", ctx()));
            }
            Geometry::Triangle(t) => {
                let (a, b) = (t.signed_area(), t.to_polygon().signed_area());
                obs.expect((a - b).abs() <= tol, "signed_area:Triangle|differs-from-polygon-form", || format!("{a} vs {b}; {}", ctx()));
            }
            _ => {}
        }

        // ring-level checks on every polygon of the geometry
        let mut polys: Vec<Poly> = vec![];
        let (mut p0, mut l0) = (vec![], vec![]);
        c.g.parts(&mut p0, &mut l0, &mut polys);
        if matches!(c.g, G::Rect(..) | G::Triangle(..)) {
            polys.clear();
        }
        for po in &polys {
            let shell_sign = twice_area_ring(&po.ext).signum();
            if shell_sign < 0 {
                obs.label("cw-shell");
            }
            for h in &po.holes {
                if twice_area_ring(h).signum() == shell_sign {
                    obs.label("hole-wound-like-shell");
                    obs.nontrivial();
                }
            }
            for r in po.rings() {
                if r.len() < 4 {
                    continue;
                }
                // rotate the start, optionally duplicate the neighbours of the least vertex
                let n = r.len() - 1;
                let mut open: Vec<C> = r[..n].to_vec();
                open.rotate_left(c.rot as usize % n);
                if c.dup & 31 != 0 {
                    let li = (0..n).min_by_key(|i| open[*i]).unwrap();
                    let (v, nx, pv) = (open[li], open[(li + 1) % n], open[(li + n - 1) % n]);
                    let mut out: Vec<C> = vec![];
                    for (k, p) in open.iter().enumerate() {
                        if k == (li + n - 1) % n && c.dup & 8 != 0 && n > 1 {
                            out.push(pv);
                        }
                        out.push(*p);
                        if k == li {
                            if c.dup & 1 != 0 { out.push(v); }
                            if c.dup & 2 != 0 { out.push(v); out.push(v); }
                        }
                        if k == (li + 1) % n && c.dup & 4 != 0 {
                            out.push(nx);
                        }
                    }
                    open = out;
                }
                let f = open[0];
                open.push(f);
                if c.dup & 16 != 0 {
                    open.push(f);
                }
                // position of the least vertex in the transformed frame
                let tc: Vec<geo::Coord<f64>> = open.iter().map(|p| c.xf.apply(*p)).collect();
                let li = (0..tc.len()).min_by(|a, b| (tc[*a].x, tc[*a].y).partial_cmp(&(tc[*b].x, tc[*b].y)).unwrap()).unwrap();
                if li == 0 || li >= tc.len() - 2 {
                    obs.label("least-vertex-first-or-last");
                    obs.nontrivial();
                }
                let ls = LineString::new(tc);
                let exact = twice_area_ring(&open).signum() * if c.xf.reflects() { -1 } else { 1 };
                let want = if exact > 0 { Some(WindingOrder::CounterClockwise) } else if exact < 0 { Some(WindingOrder::Clockwise) } else { None };
                let got = ls.winding_order();
                obs.expect(got == want, "winding_order|wrong", || format!("got {:?} want {:?}; ring {:?} xf={:?}", got, want, open, c.xf));
                obs.expect(ls.is_ccw() == (exact > 0) && ls.is_cw() == (exact < 0), "is_cw/is_ccw|inconsistent", || format!("ring {:?} xf={:?}", open, c.xf));
                // the same ring as i64, moved far from the origin (2^54 .. 2^61: beyond what an f64 can hold exactly, while every
                // coordinate DIFFERENCE is small, so the integer kernel's products are nowhere near overflow)
                {
                    let sh = 1i64 << (54 + (c.rot as u32 + c.dup as u32) % 8);
                    let (sx, sy) = if c.dup & 32 != 0 { (sh, -sh) } else { (-sh, sh + 3) };
                    let li: LineString<i64> = LineString::new(open.iter().map(|p| { let q = c.xf.d4(*p); geo::Coord { x: q.0 + sx, y: q.1 + sy } }).collect());
                    let got_i = li.winding_order();
                    obs.expect(got_i == want, "winding_order<i64>|wrong", || format!("got {:?} want {:?}; ring {:?} shifted by ({sx}, {sy}) d4={}", got_i, want, open, c.xf.d4));
                    obs.expect(li.is_ccw() == (exact > 0) && li.is_cw() == (exact < 0), "is_cw/is_ccw<i64>|inconsistent", || format!("ring {:?} shifted by ({sx}, {sy})", open));
                }
                // the rest of the Winding trait: the iterators and the re-winding methods give the same coordinates in the
                // promised direction (forwards when the ring already has it, backwards otherwise)
                if let Some(w) = want {
                    let fwd: Vec<geo::Coord<f64>> = ls.0.clone();
                    let bwd: Vec<geo::Coord<f64>> = ls.0.iter().rev().copied().collect();
                    let (cw_want, ccw_want) = if w == WindingOrder::Clockwise { (&fwd, &bwd) } else { (&bwd, &fwd) };
                    let pcw: Vec<geo::Coord<f64>> = ls.points_cw().map(|p| p.0).collect();
                    let pccw: Vec<geo::Coord<f64>> = ls.points_ccw().map(|p| p.0).collect();
                    obs.expect(&pcw == cw_want && &pccw == ccw_want, "points_cw/points_ccw|wrong", || format!("cw {:?} ccw {:?}; ring {:?} xf={:?}", pcw, pccw, open, c.xf));
                    let mut m1 = ls.clone();
                    m1.make_cw_winding();
                    let mut m2 = ls.clone();
                    m2.make_ccw_winding();
                    obs.expect(&m1.0 == cw_want && &m2.0 == ccw_want, "make_cw_winding/make_ccw_winding|wrong", || format!("cw {:?} ccw {:?}; ring {:?} xf={:?}", m1.0, m2.0, open, c.xf));
                    let c1 = ls.clone_to_winding_order(WindingOrder::Clockwise);
                    let c2 = ls.clone_to_winding_order(WindingOrder::CounterClockwise);
                    let mut m3 = ls.clone();
                    m3.make_winding_order(WindingOrder::CounterClockwise);
                    obs.expect(&c1.0 == cw_want && &c2.0 == ccw_want && &m3.0 == ccw_want, "clone_to_winding_order/make_winding_order|wrong", || format!("ring {:?} xf={:?}", open, c.xf));
                }
            }
        }
        // orient
        let refl_sign: i128 = if c.xf.reflects() { -1 } else { 1 };
        let check_oriented = |model: &Poly, orig: &geo::Polygon<f64>, out: &geo::Polygon<f64>, dir: Direction, obs: &mut Obs| {
            let rings_m: Vec<&Vec<C>> = model.rings().collect();
            let rings_o: Vec<&LineString<f64>> = std::iter::once(orig.exterior()).chain(orig.interiors().iter()).collect();
            let rings_n: Vec<&LineString<f64>> = std::iter::once(out.exterior()).chain(out.interiors().iter()).collect();
            obs.expect(rings_o.len() == rings_n.len(), "orient|ring-count", || ctx());
            for (i, (o, n)) in rings_o.iter().zip(rings_n.iter()).enumerate() {
                let kept = o.0 == n.0;
                let reversed = o.0.iter().rev().copied().collect::<Vec<_>>() == n.0;
                obs.expect((kept || reversed) && n.is_closed(), "orient|ring-changed", || format!("ring {i}: {:?} -> {:?}; {}", o.0, n.0, ctx()));
                // exact orientation of the output ring, from the model ring and whether it was reversed
                let in_sign = twice_area_ring(rings_m[i]).signum() * refl_sign;
                if in_sign != 0 && (kept || reversed) {
                    let out_sign = if kept { in_sign } else { -in_sign };
                    let want_ccw = matches!((i == 0, dir), (true, Direction::Default) | (false, Direction::Reversed));
                    obs.expect((out_sign > 0) == want_ccw, "orient|wrong-direction", || format!("ring {i} {:?} after {:?}; {}", n.0, dir, ctx()));
                }
            }
        };
        match &gg {
            Geometry::Polygon(p) => {
                for dir in [Direction::Default, Direction::Reversed] {
                    let out = p.orient(dir);
                    if let G::Polygon(mp) = &c.g {
                        check_oriented(mp, p, &out, dir, obs);
                    }
                    // exact orientation check through the model: signed area sign of the output
                    let sa = out.signed_area();
                    if a2 != 0 {
                        obs.expect((sa > 0.0) == matches!(dir, Direction::Default), "orient|shell-sign", || format!("signed area {sa} after {:?}; {}", dir, ctx()));
                    }
                }
            }
            Geometry::MultiPolygon(mp) => {
                for dir in [Direction::Default, Direction::Reversed] {
                    let out = mp.orient(dir);
                    obs.expect(out.0.len() == mp.0.len(), "orient|member-count", || ctx());
                    if let G::MultiPolygon(mm) = &c.g {
                        for ((m, p), o) in mm.iter().zip(mp.0.iter()).zip(out.0.iter()) {
                            check_oriented(m, p, o, dir, obs);
                        }
                    }
                }
            }
            _ => {}
        }
    }
}


/// winding and orient on a triangle whose orientation is decided in the last bits; the oracle is the exact orientation sign
fn check_sliver(t: &[(f64, f64); 3], as_hole: bool, obs: &mut Obs) {
    use geo::{Coord, Polygon};
    obs.label("sub:sliver");
    let in_range = |v: f64| v == 0.0 || (v.is_finite() && v.abs() >= 2f64.powi(-400) && v.abs() <= 2f64.powi(400));
    if !t.iter().all(|p| in_range(p.0) && in_range(p.1)) {
        obs.label("skipped:out-of-domain");
        return;
    }
    let o = crate::exact::big::orient_f64(t[0], t[1], t[2]);
    let naive = (t[1].0 - t[0].0) * (t[2].1 - t[0].1) - (t[1].1 - t[0].1) * (t[2].0 - t[0].0);
    if o != 0 && (naive == 0.0 || (naive > 0.0) != (o > 0)) {
        obs.label("sliver:naive-area-misjudges");
        obs.nontrivial();
    }
    let co = |p: (f64, f64)| Coord { x: p.0, y: p.1 };
    let ring = LineString::new(vec![co(t[0]), co(t[1]), co(t[2]), co(t[0])]);
    let want = if o > 0 { Some(WindingOrder::CounterClockwise) } else if o < 0 { Some(WindingOrder::Clockwise) } else { None };
    let ctx = || format!("{:?} bits {:?}", t, t.map(|p| (p.0.to_bits(), p.1.to_bits())));
    if o != 0 {
        let got = ring.winding_order();
        obs.expect(got == want, "winding_order|sliver", || format!("got {:?} want {:?}; {}", got, want, ctx()));
    } else {
        obs.label("sliver:exactly-collinear");
        return;
    }
    let rev = LineString::new(ring.0.iter().rev().copied().collect());
    let (ccw, cw) = if o > 0 { (&ring, &rev) } else { (&rev, &ring) };
    let poly = if as_hole {
        // a big square around it (its own orientation is unambiguous)
        let m = t.iter().fold(1.0f64, |m, p| m.max(p.0.abs()).max(p.1.abs())) * 4.0;
        Polygon::new(LineString::new(vec![co((-m, -m)), co((m, -m)), co((m, m)), co((-m, m)), co((-m, -m))]), vec![ring.clone()])
    } else {
        Polygon::new(ring.clone(), vec![])
    };
    for dir in [Direction::Default, Direction::Reversed] {
        let out = poly.orient(dir);
        let target = if as_hole { &out.interiors()[0] } else { out.exterior() };
        // exterior counter-clockwise / holes clockwise by default, the opposite when reversed
        let want_ccw = as_hole != matches!(dir, Direction::Default);
        let expect = if want_ccw { ccw } else { cw };
        obs.cmp();
        obs.expect(&target.0 == &expect.0, &format!("orient|sliver|{}", if as_hole { "hole" } else { "shell" }), || format!("{:?}: got {:?} want {:?}; {}", dir, target.0, expect.0, ctx()));
    }
    let mp = geo::MultiPolygon::new(vec![poly.clone()]);
    let out = mp.orient(Direction::Default);
    obs.expect(out.0[0] == poly.orient(Direction::Default), "orient|sliver|MultiPolygon-differs", || ctx());
}
