//! C15 — interpolation, location and densification agree along a line.
use crate::engine::{guard, Obs, Property, Tier};
use geo::{Coord, Densify, Euclidean, InterpolateLine, Length, Line, LineString, Point, Polygon, Rect, Triangle};
#[allow(deprecated)]
use geo::{LineInterpolatePoint, LineLocatePoint};
use proptest::prelude::*;
use serde::{Deserialize, Serialize};

type P = (f64, f64);

#[derive(Clone, Debug, Serialize, Deserialize)]
pub struct Case {
    pub pts: Vec<P>,
    pub ratio: f64,
    pub max: f64,
    /// 0 LineString 1 Line (first two points) 2 Polygon ring 3 Rect 4 Triangle
    pub kind: u8,
}

pub struct C15;

fn dist(a: P, b: P) -> f64 {
    ((a.0 - b.0).powi(2) + (a.1 - b.1).powi(2)).sqrt()
}
fn pt_seg(p: P, a: P, b: P) -> f64 {
    let (dx, dy) = (b.0 - a.0, b.1 - a.1);
    let l2 = dx * dx + dy * dy;
    let t = if l2 == 0.0 { 0.0 } else { (((p.0 - a.0) * dx + (p.1 - a.1) * dy) / l2).clamp(0.0, 1.0) };
    dist(p, (a.0 + t * dx, a.1 + t * dy))
}
/// independent arc-length walk: the point at distance `target` (clamped) from the start
fn walk(pts: &[P], target: f64) -> P {
    let total: f64 = pts.windows(2).map(|w| dist(w[0], w[1])).sum();
    let target = target.clamp(0.0, total);
    let mut cum = 0.0;
    for w in pts.windows(2) {
        let l = dist(w[0], w[1]);
        if cum + l >= target && l > 0.0 {
            let t = ((target - cum) / l).clamp(0.0, 1.0);
            return (w[0].0 + (w[1].0 - w[0].0) * t, w[0].1 + (w[1].1 - w[0].1) * t);
        }
        cum += l;
    }
    *pts.last().unwrap()
}

fn line_strategy() -> impl Strategy<Value = Vec<P>> {
    prop_oneof![
        // lattice walk with repeated vertices / zero-length segments
        4 => ((0i32..8, 0i32..8), proptest::collection::vec((-3i32..4, -3i32..4), 0..12)).prop_map(|(o, st)| {
            let mut v = vec![(o.0 as f64, o.1 as f64)];
            let (mut x, mut y) = o;
            for (dx, dy) in st { x += dx; y += dy; v.push((x as f64, y as f64)); }
            v
        }),
        // strictly x-monotone: simple, no zero-length segments
        4 => ((0i32..8, 0i32..8), proptest::collection::vec((1i32..4, -3i32..4), 1..12)).prop_map(|(o, st)| {
            let mut v = vec![(o.0 as f64, o.1 as f64)];
            let (mut x, mut y) = o;
            for (dx, dy) in st { x += dx; y += dy; v.push((x as f64, y as f64)); }
            v
        }),
        // 3-4-5 segments: lengths are exact, exact divisors exist
        2 => proptest::collection::vec((0i32..4, any::<bool>()), 1..8).prop_map(|st| {
            let mut v = vec![(0.0, 0.0)];
            let (mut x, mut y) = (0.0f64, 0.0f64);
            for (k, f) in st { let s = (k + 1) as f64; if f { x += 3.0 * s; y += 4.0 * s; } else { x += 4.0 * s; y -= 3.0 * s; } v.push((x, y)); }
            v
        }),
        2 => proptest::collection::vec((-1000.0f64..1000.0, -1000.0f64..1000.0), 0..12),
    ]
}

impl Property for C15 {
    type Case = Case;
    const ID: &'static str = "C15";
    fn strategy(_tier: Tier) -> BoxedStrategy<Case> {
        (line_strategy(), 0u8..8, 0.0f64..1.0, any::<u16>(), 0u8..6, 0.0f64..1.0, 0u8..8)
            .prop_map(|(pts, rclass, rfrac, rsel, mclass, mfrac, kind)| {
                let segs: Vec<f64> = pts.windows(2).map(|w| dist(w[0], w[1])).collect();
                let total: f64 = segs.iter().sum();
                // ratios: below 0, 0, exact vertex positions, interior, 1, above 1
                let ratio = match rclass {
                    0 => -rfrac - 0.01,
                    1 => 0.0,
                    2 | 3 if total > 0.0 && !segs.is_empty() => {
                        let k = (rsel as usize * segs.len()) >> 16;
                        segs[..=k].iter().sum::<f64>() / total
                    }
                    4 => 1.0,
                    5 => 1.0 + rfrac,
                    _ => rfrac,
                };
                let shortest = segs.iter().cloned().filter(|l| *l > 0.0).fold(f64::INFINITY, f64::min);
                let max = match mclass {
                    0 if shortest.is_finite() => shortest * (0.01 + 0.2 * mfrac),
                    1 if !segs.is_empty() => { let k = (rsel as usize * segs.len()) >> 16; let l = segs[k]; if l > 0.0 { l / (1 + (rsel % 7)) as f64 } else { 1.0 } }
                    2 if total > 0.0 => total * (0.9 + 0.2 * mfrac),
                    3 if total > 0.0 => total * (1.5 + mfrac),
                    4 if !segs.is_empty() => { let k = (rsel as usize * segs.len()) >> 16; if segs[k] > 0.0 { segs[k] } else { 1.0 } }
                    _ => 0.05 + 5.0 * mfrac,
                };
                Case { pts, ratio, max, kind }
            })
            .boxed()
    }
    fn quota(tier: Tier) -> u64 {
        tier.pick(4_000_000, 60_000_000)
    }
    fn rule() -> String {
        "Lines and line strings with 0-12 vertices (lattice walks with repeated vertices and zero-length segments, strictly \
         x-monotone simple lines, 3-4-5 chains with exact lengths, random doubles), also used as Polygon ring, Rect and Triangle \
         for densify; ratios from {<0, 0, exact vertex positions, interior, 1, >1}; maximum segment lengths from {far below the \
         shortest segment, exact divisors of a segment length, a segment length itself, about the total, above the total}. Oracle: \
         an independent arc-length walk (own sqrt/interpolation). Checked: point_at_ratio_from_start lies on the line at arc length \
         clamp(r) L; equals from_end(1-r) and the distance forms; line_locate_point maps it back to r for simple lines; deprecated \
         line_interpolate_point agrees; densify keeps every original vertex bitwise and in order, inserts exactly ceil(d/max)-1 \
         points per segment, all on their segment, conserves length, and yields no segment longer than max. Tolerance 1e-9 (L + \
         max|coord|). Non-trivial = >= 3 vertices and 0 < r < 1, or densify inserted a point."
            .into()
    }
    fn must_hit() -> Vec<&'static str> {
        vec!["ratio:<0", "ratio:0", "ratio:interior", "ratio:1", "ratio:>1", "ratio:at-vertex", "densify:inserted", "densify:nothing-to-insert", "max:exact-divisor", "zero-length-segment"]
    }
    fn check(c: &Case, obs: &mut Obs) {
        if c.pts.iter().any(|p| !p.0.is_finite() || !p.1.is_finite() || p.0.abs() > 1e9 || p.1.abs() > 1e9) || !c.ratio.is_finite() || !(c.max > 0.0) || !c.max.is_finite() {
            obs.label("skipped:out-of-domain");
            return;
        }
        let co = |p: P| Coord { x: p.0, y: p.1 };
        let pts = &c.pts;
        let total: f64 = pts.windows(2).map(|w| dist(w[0], w[1])).sum();
        let maxabs = pts.iter().fold(0f64, |m, p| m.max(p.0.abs()).max(p.1.abs()));
        let tol = 1e-9 * (total + maxabs + 1.0);
        let r = c.ratio;
        obs.label(if r < 0.0 { "ratio:<0" } else if r == 0.0 { "ratio:0" } else if r == 1.0 { "ratio:1" } else if r > 1.0 { "ratio:>1" } else { "ratio:interior" });
        if pts.windows(2).any(|w| w[0] == w[1]) {
            obs.label("zero-length-segment");
        }
        if r > 0.0 && r < 1.0 && total > 0.0 {
            let mut cum = 0.0;
            for w in pts.windows(2) {
                cum += dist(w[0], w[1]);
                if (cum / total - r).abs() < 1e-15 {
                    obs.label("ratio:at-vertex");
                }
            }
        }
        let ctx = || format!("pts={:?} r={r} max={}", pts, c.max);
        let kind = c.kind % 8;
        // ---------------- interpolation (LineString and Line)
        if kind <= 1 {
            let ls = LineString::new(pts.iter().map(|p| co(*p)).collect());
            let eff: Vec<P> = if kind == 1 { pts.iter().take(2).cloned().collect() } else { pts.clone() };
            if kind == 1 && eff.len() < 2 {
                return;
            }
            let etotal: f64 = eff.windows(2).map(|w| dist(w[0], w[1])).sum();
            let res = guard(std::panic::AssertUnwindSafe(|| -> [Option<Point<f64>>; 4] {
                if kind == 0 {
                    [
                        Euclidean.point_at_ratio_from_start(&ls, r),
                        Euclidean.point_at_ratio_from_end(&ls, 1.0 - r),
                        Euclidean.point_at_distance_from_start(&ls, r * etotal),
                        Euclidean.point_at_distance_from_end(&ls, (1.0 - r) * etotal),
                    ]
                } else {
                    let l = Line::new(co(eff[0]), co(eff[1]));
                    [
                        Some(Euclidean.point_at_ratio_from_start(&l, r)),
                        Some(Euclidean.point_at_ratio_from_end(&l, 1.0 - r)),
                        Some(Euclidean.point_at_distance_from_start(&l, r * etotal)),
                        Some(Euclidean.point_at_distance_from_end(&l, (1.0 - r) * etotal)),
                    ]
                }
            }));
            let res = match res {
                Ok(v) => v,
                Err(p) => {
                    obs.fail(format!("interpolate|panic|{}", p.site()), format!("{} {}", p, ctx()));
                    return;
                }
            };
            let names = ["point_at_ratio_from_start", "point_at_ratio_from_end", "point_at_distance_from_start", "point_at_distance_from_end"];
            if eff.is_empty() {
                for (n, v) in names.iter().zip(res.iter()) {
                    obs.expect(v.is_none(), &format!("{n}|some-for-empty"), || ctx());
                }
                return;
            }
            let want = if eff.len() == 1 { eff[0] } else { walk(&eff, r.clamp(0.0, 1.0) * etotal) };
            if eff.len() >= 3 && r > 0.0 && r < 1.0 {
                obs.nontrivial();
            }
            for (n, v) in names.iter().zip(res.iter()) {
                match v {
                    None => obs.fail(format!("{n}|none-for-nonempty"), ctx()),
                    Some(p) => {
                        let g = (p.x(), p.y());
                        obs.expect(dist(g, want) <= tol, &format!("{n}|wrong-position"), || format!("got {:?} want {:?} (tol {tol}); {}", g, want, ctx()));
                        if eff.len() >= 2 {
                            let on = eff.windows(2).map(|w| pt_seg(g, w[0], w[1])).fold(f64::INFINITY, f64::min);
                            obs.expect(on <= tol, &format!("{n}|off-the-line"), || format!("got {:?}, {on} away; {}", g, ctx()));
                        }
                    }
                }
            }
            // locate maps back (simple lines: strictly x-monotone, hence no zero-length segments)
            let monotone = eff.len() >= 2 && eff.windows(2).all(|w| w[1].0 > w[0].0);
            if kind == 0 && monotone {
                if let Some(Some(p)) = res.first() {
                    #[allow(deprecated)]
                    let loc = ls.line_locate_point(p);
                    let rc = r.clamp(0.0, 1.0);
                    obs.expect(matches!(loc, Some(v) if (v - rc).abs() <= 1e-9), "line_locate_point|not-the-inverse", || format!("located {:?} want {rc}; {}", loc, ctx()));
                    obs.label("locate-roundtrip");
                }
            }
            // locate on ANY line string or Line (repeated vertices, self-crossings, back-tracking): the returned fraction is the
            // position of A closest point, so interpolating it again lands as close to the query as the line gets. Queries:
            // the interpolated point itself (distance 0) and a point off the line derived from the case
            if eff.len() >= 2 && etotal > 0.0 {
                let qs: Vec<P> = match res.first() {
                    Some(Some(p)) => vec![(p.x(), p.y()), (p.x() + (r * 7.0).fract() * 3.0 - 1.0, p.y() - (r * 13.0).fract() * 2.0 + 0.5)],
                    _ => vec![],
                };
                for q in qs {
                    if !(q.0.is_finite() && q.1.is_finite()) {
                        continue;
                    }
                    let qp = Point::new(q.0, q.1);
                    #[allow(deprecated)]
                    let loc = if kind == 0 { ls.line_locate_point(&qp) } else { Line::new(co(eff[0]), co(eff[1])).line_locate_point(&qp) };
                    let nearest = eff.windows(2).map(|w| pt_seg(q, w[0], w[1])).fold(f64::INFINITY, f64::min);
                    match loc {
                        Some(f) if (0.0..=1.0).contains(&f) => {
                            let back = walk(&eff, f * etotal);
                            let d = dist(back, q);
                            obs.expect(d <= nearest + tol, "line_locate_point|not-a-closest-point", || format!("query {:?} located at {f} = {:?}, {d} away, the line is {nearest} away; {}", q, back, ctx()));
                            obs.label("locate-any-line");
                        }
                        other => obs.fail("line_locate_point|none-or-out-of-range".to_string(), format!("query {:?} -> {:?}; {}", q, other, ctx())),
                    }
                }
            } else if eff.len() >= 2 {
                // documented: a line of zero length gives the fraction zero
                #[allow(deprecated)]
                let loc = if kind == 0 { ls.line_locate_point(&Point::new(eff[0].0 + 1.0, eff[0].1)) } else { Line::new(co(eff[0]), co(eff[1])).line_locate_point(&Point::new(eff[0].0 + 1.0, eff[0].1)) };
                obs.expect(loc == Some(0.0), "line_locate_point|zero-length-line-not-zero", || format!("{:?}; {}", loc, ctx()));
            }
            if kind == 0 && eff.len() >= 2 && etotal > 0.0 {
                #[allow(deprecated)]
                let dep = ls.line_interpolate_point(r);
                match dep {
                    Some(p) => obs.expect(dist((p.x(), p.y()), want) <= tol, "line_interpolate_point|differs", || format!("got {:?} want {:?}; {}", p, want, ctx())),
                    None => obs.fail("line_interpolate_point|none-for-nonempty", ctx()),
                }
            }
            let l2 = Euclidean.length(&ls);
            if kind == 0 {
                obs.expect((l2 - total).abs() <= tol, "Length::length(LineString)|wrong", || format!("{l2} vs {total}; {}", ctx()));
            }
        }
        // ---------------- densify in the geographic metric spaces (the trait is generic over the metric): the same points read as
        // longitude / latitude; no segment longer than the maximum in THAT metric, original vertices kept in order, the Rect
        // form equal to the form of its polygon, total length unchanged
        if pts.len() >= 2 && pts.iter().all(|p| p.0.is_finite() && p.1.is_finite() && p.0.abs() <= 1000.0 && p.1.abs() <= 1000.0) && c.ratio.is_finite() && (c.max.to_bits() >> 5) % 4 == 0 {
            use geo::{Distance, Geodesic, Haversine, Length, Rhumb};
            let ll: Vec<geo::Coord<f64>> = pts.iter().map(|p| geo::Coord { x: p.0 * 0.17, y: p.1 * 0.08 }).collect();
            let frac = 0.02 + 0.5 * (c.ratio.abs() % 1.0);
            macro_rules! geo_densify {
                ($space:expr, $name:expr) => {{
                    let r = guard(std::panic::AssertUnwindSafe(|| {
                        let mut o = Obs::new();
                        let d = |a: geo::Coord<f64>, b: geo::Coord<f64>| $space.distance(Point(a), Point(b));
                        let ls = LineString::new(ll.clone());
                        let total = $space.length(&ls);
                        if !(total > 1.0) || !total.is_finite() {
                            return o;
                        }
                        let maxd = total * frac;
                        let tol = 1e-3 + 1e-9 * total;
                        let check = |inp: &LineString<f64>, out: &LineString<f64>, what: &str, o: &mut Obs| {
                            // rhumb lines that are nearly, but not exactly, east-west are ill-conditioned (q = dphi / dpsi of two
                            // tiny numbers, relative error about ulp / dpsi - the band C16 leaves out as well): distances along
                            // such a segment are not asserted
                            if $name == "Rhumb" {
                                let psi = |lat: f64| (std::f64::consts::FRAC_PI_4 + lat.to_radians() / 2.0).tan().ln();
                                if inp.0.windows(2).any(|w| w[0].y != w[1].y && (psi(w[0].y) - psi(w[1].y)).abs() < 1e-6) {
                                    o.label("densify(Rhumb):ill-conditioned-band-not-asserted");
                                    return;
                                }
                            }
                            let gap = out.0.windows(2).map(|w| d(w[0], w[1])).fold(0.0, f64::max);
                            o.expect(gap <= maxd * (1.0 + 1e-9) + tol, &format!("densify({})|{what}|segment-longer-than-max", $name), || format!("largest {gap} > {maxd}; in {:?}", inp.0));
                            // original vertices, in order
                            let mut k = 0;
                            for q in &out.0 {
                                if k < inp.0.len() && *q == inp.0[k] {
                                    k += 1;
                                }
                            }
                            o.expect(k == inp.0.len(), &format!("densify({})|{what}|original-vertex-lost", $name), || format!("in {:?} out {:?}", inp.0, out.0));
                            let (l0, l1) = ($space.length(inp), $space.length(out));
                            o.expect((l0 - l1).abs() <= 1e-6 * l0 + tol, &format!("densify({})|{what}|length-changed", $name), || format!("{l0} -> {l1}; in {:?}", inp.0));
                        };
                        let out = $space.densify(&ls, maxd);
                        check(&ls, &out, "LineString", &mut o);
                        let rc = Rect::new(ll[0], ll[1]);
                        let (po, ro) = ($space.densify(&rc.to_polygon(), maxd), $space.densify(&rc, maxd));
                        o.expect(po == ro, &format!("densify({})|Rect|differs-from-its-polygon", $name), || format!("{:?} vs {:?}", ro, po));
                        check(rc.to_polygon().exterior(), ro.exterior(), "Rect", &mut o);
                        if ll.len() >= 3 {
                            let tr = Triangle::new(ll[0], ll[1], ll[2]);
                            let to = $space.densify(&tr, maxd);
                            check(tr.to_polygon().exterior(), to.exterior(), "Triangle", &mut o);
                        }
                        o
                    }));
                    match r {
                        Ok(o) => { obs.comparisons += o.comparisons; obs.failures.extend(o.failures); }
                        Err(p) => obs.fail(format!("densify({})|panic|{}", $name, p.site()), format!("{} {}", p, ctx())),
                    }
                }};
            }
            match c.kind % 3 {
                0 => geo_densify!(Haversine, "Haversine"),
                1 => geo_densify!(Geodesic, "Geodesic"),
                _ => geo_densify!(Rhumb, "Rhumb"),
            }
            obs.label("densify:geographic");
        }
        // ---------------- densify
        let rings_in: Vec<Vec<P>>;
        let rings_out: Vec<Vec<P>>;
        let name;
        let from_ls = |l: &LineString<f64>| -> Vec<P> { l.0.iter().map(|c| (c.x, c.y)).collect() };
        let r = guard(std::panic::AssertUnwindSafe(|| -> Option<(Vec<Vec<P>>, Vec<Vec<P>>, &'static str)> {
            match kind {
                0 => {
                    let ls = LineString::new(pts.iter().map(|p| co(*p)).collect());
                    Some((vec![pts.clone()], vec![from_ls(&Euclidean.densify(&ls, c.max))], "LineString"))
                }
                1 => {
                    if pts.len() < 2 {
                        return None;
                    }
                    let l = Line::new(co(pts[0]), co(pts[1]));
                    Some((vec![vec![pts[0], pts[1]]], vec![from_ls(&Euclidean.densify(&l, c.max))], "Line"))
                }
                2 => {
                    let p = Polygon::new(LineString::new(pts.iter().map(|p| co(*p)).collect()), vec![]);
                    let o = Euclidean.densify(&p, c.max);
                    Some((vec![from_ls(p.exterior())], vec![from_ls(o.exterior())], "Polygon"))
                }
                3 => {
                    if pts.len() < 2 {
                        return None;
                    }
                    let rc = Rect::new(co(pts[0]), co(pts[1]));
                    let o = Euclidean.densify(&rc, c.max);
                    Some((vec![from_ls(rc.to_polygon().exterior())], vec![from_ls(o.exterior())], "Rect"))
                }
                4 => {
                    if pts.len() < 3 {
                        return None;
                    }
                    let t = Triangle::new(co(pts[0]), co(pts[1]), co(pts[2]));
                    let o = Euclidean.densify(&t, c.max);
                    Some((vec![from_ls(t.to_polygon().exterior())], vec![from_ls(o.exterior())], "Triangle"))
                }
                // the multi-part types: every ring / member is densified on its own, in order
                5 => {
                    let h = pts.len() / 2;
                    let p = Polygon::new(LineString::new(pts[..h].iter().map(|p| co(*p)).collect()), vec![LineString::new(pts[h..].iter().map(|p| co(*p)).collect())]);
                    let o = Euclidean.densify(&p, c.max);
                    let rings = |q: &Polygon<f64>| -> Vec<Vec<P>> { std::iter::once(q.exterior()).chain(q.interiors().iter()).map(|l| from_ls(l)).collect() };
                    Some((rings(&p), rings(&o), "Polygon-with-hole"))
                }
                6 => {
                    let h = pts.len() / 2;
                    let m = geo::MultiLineString::new(vec![LineString::new(pts[..h].iter().map(|p| co(*p)).collect()), LineString::new(pts[h..].iter().map(|p| co(*p)).collect())]);
                    let o = Euclidean.densify(&m, c.max);
                    Some((m.0.iter().map(|l| from_ls(l)).collect(), o.0.iter().map(|l| from_ls(l)).collect(), "MultiLineString"))
                }
                _ => {
                    let h = pts.len() / 2;
                    let m = geo::MultiPolygon::new(vec![
                        Polygon::new(LineString::new(pts[..h].iter().map(|p| co(*p)).collect()), vec![]),
                        Polygon::new(LineString::new(pts[h..].iter().map(|p| co(*p)).collect()), vec![]),
                    ]);
                    let o = Euclidean.densify(&m, c.max);
                    let rings = |q: &geo::MultiPolygon<f64>| -> Vec<Vec<P>> { q.0.iter().flat_map(|p| std::iter::once(p.exterior()).chain(p.interiors().iter()).map(|l| from_ls(l)).collect::<Vec<_>>()).collect() };
                    Some((rings(&m), rings(&o), "MultiPolygon"))
                }
            }
        }));
        match r {
            Ok(Some((i, o, n))) => {
                rings_in = i;
                rings_out = o;
                name = n;
            }
            Ok(None) => return,
            Err(p) => {
                obs.fail(format!("densify|panic|{}", p.site()), format!("{} {}", p, ctx()));
                return;
            }
        }
        obs.expect(rings_in.len() == rings_out.len(), &format!("densify:{name}|ring-or-member-count"), || format!("{} -> {}; {}", rings_in.len(), rings_out.len(), ctx()));
        for (inp, out) in rings_in.iter().zip(rings_out.iter()) {
            let key = |s: &str| format!("densify:{name}|{s}");
            if inp.is_empty() {
                obs.expect(out.is_empty(), &key("nonempty-from-empty"), || ctx());
                continue;
            }
            // walk: each original segment contributes its start, then ceil(d/max)-1 inserted points
            let mut k = 0usize;
            let mut ok_structure = true;
            let mut inserted_any = false;
            for w in inp.windows(2) {
                if k >= out.len() || out[k] != w[0] {
                    ok_structure = false;
                    break;
                }
                k += 1;
                let d = dist(w[0], w[1]);
                let q = d / c.max;
                let n = q.ceil();
                // the exact-multiple boundary is decided by the library's own rounded division: accept both neighbours there
                let near_int = (q - q.round()).abs() <= 1e-9 * q.max(1.0);
                let n_ins_lo = if near_int { (q.round() - 1.0).max(0.0) as usize } else { (n - 1.0).max(0.0) as usize };
                let n_ins_hi = if near_int { q.round().max(1.0) as usize } else { n_ins_lo };
                if near_int && q >= 1.0 {
                    obs.label("max:exact-divisor");
                }
                // count inserted points until the next original vertex
                let mut cnt = 0usize;
                while k + cnt < out.len() && cnt <= n_ins_hi && (out[k + cnt] != w[1] || cnt < n_ins_lo) {
                    cnt += 1;
                }
                if !(cnt >= n_ins_lo && cnt <= n_ins_hi) {
                    ok_structure = false;
                    break;
                }
                let stol = 1e-9 * (d + maxabs + 1.0);
                let mut prev = w[0];
                for j in 0..cnt {
                    let p = out[k + j];
                    obs.expect(pt_seg(p, w[0], w[1]) <= stol, &key("inserted-point-off-segment"), || format!("{:?} vs segment {:?}-{:?}; {}", p, w[0], w[1], ctx()));
                    obs.expect(dist(prev, p) <= c.max * (1.0 + 1e-12) + 1e-12 * maxabs, &key("segment-longer-than-max"), || format!("{:?}-{:?} = {} > {}; {}", prev, p, dist(prev, p), c.max, ctx()));
                    prev = p;
                    inserted_any = true;
                }
                obs.expect(dist(prev, w[1]) <= c.max * (1.0 + 1e-12) + 1e-12 * maxabs, &key("segment-longer-than-max"), || format!("{:?}-{:?} = {} > {}; {}", prev, w[1], dist(prev, w[1]), c.max, ctx()));
                k += cnt;
            }
            if ok_structure {
                ok_structure = k + 1 == out.len() && out[k] == *inp.last().unwrap();
            }
            obs.expect(ok_structure, &key("structure"), || format!("output {:?} does not keep the original vertices with ceil(d/max)-1 insertions per segment; {}", out, ctx()));
            let (li, lo): (f64, f64) = (inp.windows(2).map(|w| dist(w[0], w[1])).sum(), out.windows(2).map(|w| dist(w[0], w[1])).sum());
            obs.expect((li - lo).abs() <= 1e-9 * (li + maxabs + 1.0), &key("length-changed"), || format!("{li} -> {lo}; {}", ctx()));
            if inserted_any {
                obs.label("densify:inserted");
                obs.nontrivial();
            } else {
                obs.label("densify:nothing-to-insert");
            }
        }
    }
}
