//! C19 — coordinate traversal, mapping and bounding boxes are mutually consistent.
use crate::conv::{to_geo, wkt, IntoGeom, Xf};
use crate::engine::{guard, Obs, Property, Tier};
use crate::exact::C;
use crate::refgeom::{Poly, G};
use crate::{with_concrete, with_concrete_only};
use geo::algorithm::extremes::Extremes;
use geo::{BoundingRect, Coord, CoordsIter, Geometry, HasDimensions, Line, LinesIter, MapCoords, MapCoordsInPlace, Rect};
use proptest::prelude::*;
use serde::{Deserialize, Serialize};
use serde_json::{json, Value};
use std::cell::Cell;

#[derive(Clone, Debug, Serialize, Deserialize)]
pub struct Case {
    pub g: G,
    /// coordinate function selector: 0 affine, 1 table, 2 swap/negate
    pub fsel: u8,
    pub fa: [i8; 6],
    /// the fallible function fails from this call index on (None: never)
    pub fail_at: Option<u8>,
}

pub struct C19;

fn coord_vec() -> impl Strategy<Value = Vec<C>> {
    proptest::collection::vec((-6i64..7, -6i64..7), 0..7)
}

fn clamp_into(v: &[C], ext: &[C]) -> Vec<C> {
    if ext.is_empty() {
        return vec![];
    }
    let x0 = ext.iter().map(|c| c.0).min().unwrap();
    let x1 = ext.iter().map(|c| c.0).max().unwrap();
    let y0 = ext.iter().map(|c| c.1).min().unwrap();
    let y1 = ext.iter().map(|c| c.1).max().unwrap();
    v.iter().map(|c| (c.0.clamp(x0, x1), c.1.clamp(y0, y1))).collect()
}

fn poly_strategy() -> impl Strategy<Value = Poly> {
    (coord_vec(), proptest::collection::vec(coord_vec(), 0..7)).prop_map(|(ext, holes)| {
        // holes are kept inside the shell's bounding box: Polygon::bounding_rect is documented to use the exterior only
        let holes = holes.iter().map(|h| clamp_into(h, &ext)).collect();
        Poly { ext, holes }
    })
}

fn leaf_strategy() -> impl Strategy<Value = G> {
    let c = || (-6i64..7, -6i64..7);
    prop_oneof![
        c().prop_map(G::Point),
        (c(), c()).prop_map(|(a, b)| G::Line(a, b)),
        coord_vec().prop_map(G::LineString),
        poly_strategy().prop_map(G::Polygon),
        coord_vec().prop_map(G::MultiPoint),
        proptest::collection::vec(coord_vec(), 0..4).prop_map(G::MultiLineString),
        proptest::collection::vec(poly_strategy(), 0..4).prop_map(G::MultiPolygon),
        (c(), c()).prop_map(|(a, b)| G::Rect(a, b)),
        (c(), c(), c()).prop_map(|(a, b, d)| G::Triangle(a, b, d)),
    ]
}

pub fn structural_strategy() -> impl Strategy<Value = G> {
    leaf_strategy().prop_recursive(4, 24, 4, |inner| proptest::collection::vec(inner, 0..4).prop_map(G::Coll))
}

// ---- independent reference traversal over the public fields of the geo value
fn ref_coords(g: &Geometry<f64>, out: &mut Vec<Coord<f64>>, ext_only: bool) {
    match g {
        Geometry::Point(p) => out.push(p.0),
        Geometry::Line(l) => {
            out.push(l.start);
            out.push(l.end)
        }
        Geometry::LineString(l) => out.extend(l.0.iter().copied()),
        Geometry::Polygon(p) => {
            out.extend(p.exterior().0.iter().copied());
            if !ext_only {
                for r in p.interiors() {
                    out.extend(r.0.iter().copied());
                }
            }
        }
        Geometry::MultiPoint(m) => out.extend(m.0.iter().map(|p| p.0)),
        Geometry::MultiLineString(m) => m.0.iter().for_each(|l| out.extend(l.0.iter().copied())),
        Geometry::MultiPolygon(m) => m.0.iter().for_each(|p| ref_coords(&Geometry::Polygon(p.clone()), out, ext_only)),
        Geometry::GeometryCollection(c) => c.0.iter().for_each(|g| ref_coords(g, out, ext_only)),
        Geometry::Rect(r) => {
            let (lo, hi) = (r.min(), r.max());
            out.push(Coord { x: hi.x, y: lo.y });
            out.push(Coord { x: hi.x, y: hi.y });
            out.push(Coord { x: lo.x, y: hi.y });
            out.push(Coord { x: lo.x, y: lo.y });
        }
        Geometry::Triangle(t) => {
            out.push(t.0);
            out.push(t.1);
            out.push(t.2)
        }
    }
}

fn ring_lines(v: &[Coord<f64>], out: &mut Vec<Line<f64>>) {
    for w in v.windows(2) {
        out.push(Line::new(w[0], w[1]));
    }
}

/// reference lines for the types that implement LinesIter
fn ref_lines(g: &Geometry<f64>) -> Option<Vec<Line<f64>>> {
    let mut out = vec![];
    match g {
        Geometry::Line(l) => out.push(*l),
        Geometry::LineString(l) => ring_lines(&l.0, &mut out),
        Geometry::MultiLineString(m) => m.0.iter().for_each(|l| ring_lines(&l.0, &mut out)),
        Geometry::Polygon(p) => {
            ring_lines(&p.exterior().0, &mut out);
            p.interiors().iter().for_each(|r| ring_lines(&r.0, &mut out));
        }
        Geometry::MultiPolygon(m) => {
            for p in &m.0 {
                ring_lines(&p.exterior().0, &mut out);
                p.interiors().iter().for_each(|r| ring_lines(&r.0, &mut out));
            }
        }
        Geometry::Rect(_) | Geometry::Triangle(_) => {
            let mut cs = vec![];
            ref_coords(g, &mut cs, false);
            cs.push(cs[0]);
            ring_lines(&cs, &mut out);
        }
        _ => return None,
    }
    Some(out)
}

/// expected result of mapping: same shape, f applied (Rect re-normalised)
fn ref_map(g: &Geometry<f64>, f: &dyn Fn(Coord<f64>) -> Coord<f64>) -> Geometry<f64> {
    use geo::*;
    let ls = |l: &LineString<f64>| LineString::new(l.0.iter().map(|c| f(*c)).collect());
    let po = |p: &Polygon<f64>| Polygon::new(ls(p.exterior()), p.interiors().iter().map(ls).collect());
    match g {
        Geometry::Point(p) => Geometry::Point(Point(f(p.0))),
        Geometry::Line(l) => Geometry::Line(Line::new(f(l.start), f(l.end))),
        Geometry::LineString(l) => Geometry::LineString(ls(l)),
        Geometry::Polygon(p) => Geometry::Polygon(po(p)),
        Geometry::MultiPoint(m) => Geometry::MultiPoint(MultiPoint::new(m.0.iter().map(|p| Point(f(p.0))).collect())),
        Geometry::MultiLineString(m) => Geometry::MultiLineString(MultiLineString::new(m.0.iter().map(ls).collect())),
        Geometry::MultiPolygon(m) => Geometry::MultiPolygon(MultiPolygon::new(m.0.iter().map(po).collect())),
        Geometry::GeometryCollection(c) => Geometry::GeometryCollection(GeometryCollection::new_from(c.0.iter().map(|g| ref_map(g, f)).collect())),
        Geometry::Rect(r) => Geometry::Rect(Rect::new(f(r.min()), f(r.max()))),
        Geometry::Triangle(t) => Geometry::Triangle(Triangle::new(f(t.0), f(t.1), f(t.2))),
    }
}

/// number of coordinate-function calls a mapping makes: every traversed coordinate once, but a
/// Rect (at any nesting depth) is mapped through its two defining corners
fn map_visits(g: &Geometry<f64>) -> usize {
    match g {
        Geometry::Rect(_) => 2,
        Geometry::GeometryCollection(c) => c.0.iter().map(map_visits).sum(),
        _ => {
            let mut v = vec![];
            ref_coords(g, &mut v, false);
            v.len()
        }
    }
}

fn nesting(g: &G) -> usize {
    match g {
        G::Coll(v) => 1 + v.iter().map(nesting).max().unwrap_or(0),
        G::MultiPolygon(_) | G::MultiLineString(_) => 1,
        _ => 0,
    }
}
fn has_empty_next_to_nonempty(g: &G) -> bool {
    let mixed = |e: Vec<bool>| e.iter().any(|x| *x) && e.iter().any(|x| !*x);
    match g {
        G::Coll(v) => mixed(v.iter().map(|m| m.coords().is_empty()).collect()) || v.iter().any(has_empty_next_to_nonempty),
        G::MultiLineString(v) => mixed(v.iter().map(|m| m.is_empty()).collect()),
        G::MultiPolygon(v) => mixed(v.iter().map(|m| m.ext.is_empty()).collect()),
        G::Polygon(p) => !p.holes.is_empty() && mixed(p.holes.iter().map(|h| h.is_empty()).chain(std::iter::once(false)).collect()),
        _ => false,
    }
}

fn make_f(c: &Case) -> impl Fn(Coord<f64>) -> Coord<f64> + Copy {
    let (fsel, a) = (c.fsel % 3, c.fa);
    move |p: Coord<f64>| match fsel {
        0 => Coord { x: a[0] as f64 * p.x + a[1] as f64 * p.y + a[2] as f64, y: a[3] as f64 * p.x + a[4] as f64 * p.y + a[5] as f64 },
        1 => {
            // table look-up keyed on the coordinate: non-monotone, non-injective
            let h = crate::engine::splitmix64((p.x.to_bits() ^ p.y.to_bits().rotate_left(17)) ^ a[0] as u64);
            Coord { x: (h % 17) as f64 - 8.0, y: ((h >> 8) % 13) as f64 * 0.5 }
        }
        _ => Coord { x: -p.y + a[2] as f64, y: p.x },
    }
}

impl Property for C19 {
    type Case = Case;
    const ID: &'static str = "C19";
    fn strategy(_tier: Tier) -> BoxedStrategy<Case> {
        (structural_strategy(), 0u8..3, any::<[i8; 6]>(), proptest::option::weighted(0.7, 0u8..40))
            .prop_map(|(g, fsel, fa, fail_at)| Case { g, fsel, fa: fa.map(|v| v % 5), fail_at })
            .boxed()
    }
    fn quota(tier: Tier) -> u64 {
        tier.pick(4_000_000, 60_000_000)
    }
    fn rule() -> String {
        "Arbitrary structural values (not necessarily valid) of all 10 types and nested GeometryCollections to depth 4, with empty \
         members, polygons with 0-6 holes (holes clamped into the shell's bounding box because Polygon::bounding_rect is \
         documented to use the exterior), small integer coordinates; coordinate functions: integer affine maps, a hash-table \
         look-up keyed on the coordinate, a quarter turn, and fallible versions failing from the k-th call on. Reference: an \
         independent recursive traversal over the public fields of the geo value. Checked through the concrete type and through \
         the Geometry enum: coords_count, coords_iter (+size_hint), exterior_coords_iter, lines_iter, map_coords, \
         map_coords_in_place, try_map_coords(_in_place) (Ok and first error), bounding_rect (also GeometryCow), extremes, \
         is_empty. Non-trivial = >= 2 nesting levels or an empty member next to a non-empty one."
            .into()
    }
    fn must_hit() -> Vec<&'static str> {
        vec!["nested>=2", "empty-next-to-nonempty", "try-map:err", "try-map:ok"]
    }
    fn show(c: &Case) -> Value {
        json!({"g": wkt(&c.g), "fsel": c.fsel, "fa": c.fa, "fail_at": c.fail_at})
    }
    fn check(c: &Case, obs: &mut Obs) {
        let g = to_geo(&c.g, &Xf::ID);
        let tn = c.g.type_name();
        obs.label(format!("type:{tn}"));
        if nesting(&c.g) >= 2 {
            obs.label("nested>=2");
            obs.nontrivial();
        }
        if has_empty_next_to_nonempty(&c.g) {
            obs.label("empty-next-to-nonempty");
            obs.nontrivial();
        }
        let mut want = vec![];
        ref_coords(&g, &mut want, false);
        let mut want_ext = vec![];
        ref_coords(&g, &mut want_ext, true);
        let ctx = || format!("g={}", wkt(&c.g));
        let f = make_f(c);

        let r = guard(std::panic::AssertUnwindSafe(|| {
            let mut o = Obs::new();
            // ---- traversal, concrete type and enum
            macro_rules! traversal {
                ($x:expr, $name:expr) => {{
                    let x = $x;
                    let got: Vec<Coord<f64>> = x.coords_iter().collect();
                    o.expect(got == want, &format!("coords_iter:{}|sequence", $name), || format!("got {:?} want {:?}; {}", got, want, ctx()));
                    o.expect(x.coords_count() == want.len(), &format!("coords_count:{}|wrong", $name), || format!("{} vs {}; {}", x.coords_count(), want.len(), ctx()));
                    let (lo, hi) = x.coords_iter().size_hint();
                    o.expect(lo <= want.len() && hi.map_or(true, |h| h >= want.len()), &format!("coords_iter:{}|size_hint", $name), || format!("({lo},{hi:?}) vs {}; {}", want.len(), ctx()));
                    let gote: Vec<Coord<f64>> = x.exterior_coords_iter().collect();
                    o.expect(gote == want_ext, &format!("exterior_coords_iter:{}|sequence", $name), || format!("got {:?} want {:?}; {}", gote, want_ext, ctx()));
                    // bounding_rect
                    let br: Option<Rect<f64>> = x.bounding_rect().into();
                    let wantbr = if want.is_empty() { None } else {
                        let fold = |sel: fn(&Coord<f64>) -> f64, pick: fn(f64, f64) -> f64| want.iter().map(sel).reduce(pick).unwrap();
                        Some(Rect::new(
                            Coord { x: fold(|c| c.x, f64::min), y: fold(|c| c.y, f64::min) },
                            Coord { x: fold(|c| c.x, f64::max), y: fold(|c| c.y, f64::max) },
                        ))
                    };
                    o.expect(br == wantbr, &format!("bounding_rect:{}|wrong", $name), || format!("got {:?} want {:?}; {}", br, wantbr, ctx()));
                    // extremes
                    let ex = x.extremes();
                    match (&ex, want_ext.is_empty()) {
                        (None, true) => o.cmp(),
                        (Some(e), false) => {
                            let okx = |e: &geo::algorithm::extremes::Extreme<f64>, sel: fn(&Coord<f64>) -> f64, pick: fn(f64, f64) -> f64| {
                                want_ext.get(e.index) == Some(&e.coord) && sel(&e.coord) == want_ext.iter().map(sel).reduce(pick).unwrap()
                            };
                            let ok = okx(&e.x_min, |c| c.x, f64::min) && okx(&e.x_max, |c| c.x, f64::max) && okx(&e.y_min, |c| c.y, f64::min) && okx(&e.y_max, |c| c.y, f64::max);
                            o.expect(ok, &format!("extremes:{}|wrong", $name), || format!("got {:?}; exterior coords {:?}; {}", e, want_ext, ctx()));
                        }
                        _ => o.fail(format!("extremes:{}|none-mismatch", $name), format!("got {:?}; {}", ex, ctx())),
                    }
                    o.expect(HasDimensions::is_empty(x) == want.is_empty(), &format!("is_empty:{}|wrong", $name), || format!("is_empty {} but {} coords; {}", HasDimensions::is_empty(x), want.len(), ctx()));
                }};
            }
            with_concrete!(&g, x => traversal!(x, tn));
            traversal!(&g, format!("Geometry[{tn}]"));

            // ---- lines_iter
            if let Some(wl) = ref_lines(&g) {
                macro_rules! lines {
                    ($v:ident) => {
                        if let Geometry::$v(x) = &g {
                            let got: Vec<Line<f64>> = x.lines_iter().collect();
                            let ok = if matches!(&g, Geometry::Rect(_)) {
                                // documented only as "the four sides": compare as a closed cycle through the corners
                                got.len() == 4 && (0..4).all(|i| got[i].end == got[(i + 1) % 4].start) && {
                                    let mut a: Vec<(u64, u64)> = got.iter().map(|l| (l.start.x.to_bits(), l.start.y.to_bits())).collect();
                                    let mut b: Vec<(u64, u64)> = wl.iter().map(|l| (l.start.x.to_bits(), l.start.y.to_bits())).collect();
                                    a.sort();
                                    b.sort();
                                    a == b
                                }
                            } else {
                                got == wl
                            };
                            o.expect(ok, &format!("lines_iter:{tn}|sequence"), || format!("got {:?} want {:?}; {}", got, wl, ctx()));
                        }
                    };
                }
                lines!(Line);
                lines!(LineString);
                lines!(MultiLineString);
                lines!(Polygon);
                lines!(MultiPolygon);
                lines!(Rect);
                lines!(Triangle);
            }

            // ---- mapping
            let want_mapped = ref_map(&g, &f);
            with_concrete!(&g, x => {
                let m: Geometry<f64> = x.map_coords(f).into_geom();
                o.expect(m == want_mapped, &format!("map_coords:{tn}|wrong"), || format!("got {:?} want {:?}; {}", m, want_mapped, ctx()));
                let mut y = x.clone();
                y.map_coords_in_place(f);
                let m2: Geometry<f64> = y.into_geom();
                o.expect(m2 == want_mapped, &format!("map_coords_in_place:{tn}|wrong"), || format!("got {:?} want {:?}; {}", m2, want_mapped, ctx()));
                let ok: Result<_, ()> = x.try_map_coords(|c| Ok(f(c)));
                let m3: Option<Geometry<f64>> = ok.ok().map(|v| v.into_geom());
                o.expect(m3.as_ref() == Some(&want_mapped), &format!("try_map_coords:{tn}|ok-wrong"), || format!("got {:?}; {}", m3, ctx()));
                o.label("try-map:ok");
                if let Some(k) = c.fail_at {
                    let k = k as usize;
                    let calls = Cell::new(0usize);
                    let calls_ref = &calls;
                    let ff = move |c: Coord<f64>| -> Result<Coord<f64>, usize> {
                        let i = calls_ref.get();
                        calls_ref.set(i + 1);
                        if i >= k { Err(i) } else { Ok(f(c)) }
                    };
                    let r = x.try_map_coords(ff);
                    // how many coordinates does the mapping visit? (Rect: its 2 defining corners)
                    let visits = map_visits(&g);
                    if k < visits {
                        o.label("try-map:err");
                        o.expect(matches!(r, Err(e) if e == k), &format!("try_map_coords:{tn}|first-error"), || format!("fail from call {k}: got {:?}; {}", r.as_ref().err(), ctx()));
                    } else {
                        o.expect(r.is_ok(), &format!("try_map_coords:{tn}|spurious-error"), || format!("fail from call {k} of {visits}: {:?}; {}", r.as_ref().err(), ctx()));
                    }
                }
            });
            // the Geometry enum as receiver of try_map_coords, a change of scalar type (f64 -> f32), arrays and slices as CoordsIter
            {
                let ok: Result<Geometry<f64>, ()> = g.try_map_coords(|c| Ok(f(c)));
                o.expect(ok.as_ref().ok() == Some(&want_mapped), &format!("try_map_coords:Geometry[{tn}]|ok-wrong"), || format!("got {:?}; {}", ok, ctx()));
                let narrowed: Geometry<f32> = g.map_coords(|c| Coord { x: c.x as f32, y: c.y as f32 });
                let got32: Vec<Coord<f32>> = narrowed.coords_iter().collect();
                // (a Rect is mapped through its two corners; its traversal is then re-derived, which commutes with a monotone cast)
                let want32: Vec<Coord<f32>> = want.iter().map(|c| Coord { x: c.x as f32, y: c.y as f32 }).collect();
                // (a Triangle is rebuilt with Triangle::new, which may re-order a clockwise one: same coordinates, as a multiset)
                fn has_tri(g: &G) -> bool { match g { G::Triangle(..) => true, G::Coll(v) => v.iter().any(has_tri), _ => false } }
                let (mut got32, mut want32) = (got32, want32);
                if has_tri(&c.g) {
                    let k = |c: &Coord<f32>| (c.x.to_bits(), c.y.to_bits());
                    got32.sort_by_key(k);
                    want32.sort_by_key(k);
                }
                o.expect(got32 == want32, &format!("map_coords:Geometry[{tn}]|f64->f32"), || format!("got {:?} want {:?}; {}", got32, want32, ctx()));
                let slice: &[Coord<f64>] = &want;
                let via_slice: Vec<Coord<f64>> = slice.coords_iter().collect();
                o.expect(via_slice == want && slice.coords_count() == want.len() && slice.exterior_coords_iter().count() == want.len(), "coords_iter:&[Coord]|wrong", || ctx());
                if want.len() >= 3 {
                    let arr: [Coord<f64>; 3] = [want[0], want[1], want[2]];
                    let via_arr: Vec<Coord<f64>> = arr.coords_iter().collect();
                    o.expect(via_arr == want[..3] && arr.coords_count() == 3, "coords_iter:[Coord;3]|wrong", || ctx());
                }
            }
            // try_map_coords_in_place cannot be instantiated for the recursive types (Geometry, GeometryCollection)
            with_concrete_only!(&g, [Point, Line, LineString, Polygon, MultiPoint, MultiLineString, MultiPolygon, Rect, Triangle], x => {
                let mut y = x.clone();
                let r: Result<(), ()> = y.try_map_coords_in_place(|c| Ok(f(c)));
                let m4: Geometry<f64> = y.into_geom();
                o.expect(r.is_ok() && m4 == want_mapped, &format!("try_map_coords_in_place:{tn}|ok-wrong"), || format!("got {:?}; {}", m4, ctx()));
                if let Some(k) = c.fail_at {
                    let k = k as usize;
                    let calls = Cell::new(0usize);
                    let calls_ref = &calls;
                    let ff = move |c: Coord<f64>| -> Result<Coord<f64>, usize> {
                        let i = calls_ref.get();
                        calls_ref.set(i + 1);
                        if i >= k { Err(i) } else { Ok(f(c)) }
                    };
                    let visits = map_visits(&g);
                    let mut y = x.clone();
                    let r2 = y.try_map_coords_in_place(ff);
                    if k < visits {
                        o.expect(matches!(r2, Err(e) if e == k), &format!("try_map_coords_in_place:{tn}|first-error"), || format!("fail from call {k}: got {:?}; {}", r2, ctx()));
                    } else {
                        o.expect(r2.is_ok(), &format!("try_map_coords_in_place:{tn}|spurious-error"), || format!("{:?}; {}", r2, ctx()));
                    }
                }
            }, else ());
            let me = g.map_coords(f);
            o.expect(me == want_mapped, &format!("map_coords:Geometry[{tn}]|wrong"), || format!("got {:?} want {:?}; {}", me, want_mapped, ctx()));
            let mut ge = g.clone();
            ge.map_coords_in_place(f);
            o.expect(ge == want_mapped, &format!("map_coords_in_place:Geometry[{tn}]|wrong"), || format!("got {:?}; {}", ge, ctx()));
            o
        }));
        match r {
            Ok(o) => {
                obs.comparisons += o.comparisons;
                for l in o.labels {
                    obs.label(l);
                }
                obs.failures.extend(o.failures);
            }
            Err(p) => obs.fail(format!("traversal:{tn}|panic|{}", p.site()), format!("{} {}", p, ctx())),
        }
    }
}
