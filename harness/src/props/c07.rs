//! C07 — Euclidean distance is the true minimum distance.
use crate::conv::{to_geo, variant, wkt, Xf};
use crate::engine::{guard, Obs, Property, Tier};
use crate::exact::{Rat, C};
use crate::gen::{holes_pair_strategy, nested_holes_pair_strategy, pair_strategy, xf_strategy, Pair};
use crate::props::c01::{bbox_class, coincidence_labels};
use crate::refgeom::de9im::de9im_info;
use crate::refgeom::measure::dist2_seg_seg;
use crate::refgeom::validity::in_relate_domain;
use crate::refgeom::G;
use crate::with_concrete;
use geo::{Distance, Euclidean};
use proptest::prelude::*;
use serde::{Deserialize, Serialize};
use serde_json::{json, Value};

#[derive(Clone, Debug, Serialize, Deserialize)]
pub struct Case {
    pub a: G,
    pub b: G,
    pub xf: Xf,
    pub vsel: u64,
    /// when present the case is the segment near[0]-near[1] and the point near[2] in raw f64 (a point on, or within a few
    /// units in the last place of, a long or large-magnitude segment); `a`, `b`, `xf` are then ignored
    #[serde(default)]
    pub near: Option<[(f64, f64); 3]>,
    #[serde(skip)]
    pub trusted: bool,
}

pub struct C07;

/// all primitives of a geometry as (possibly zero-length) segments
pub fn primitives(g: &G) -> Vec<(C, C)> {
    let mut out = g.segments();
    let (mut p, mut l, mut a) = (vec![], vec![], vec![]);
    g.parts(&mut p, &mut l, &mut a);
    out.extend(p.iter().map(|c| (*c, *c)));
    out.extend(l.iter().filter(|m| m.len() == 1).map(|m| (m[0], m[0])));
    out
}

/// exact squared distance between two non-intersecting geometries, and the kind of the closest pair
pub fn exact_dist2(a: &G, b: &G) -> (Rat, &'static str) {
    let (pa, pb) = (primitives(a), primitives(b));
    let mut best: Option<Rat> = None;
    let mut kind = "none";
    for s in &pa {
        for t in &pb {
            let d = dist2_seg_seg(s.0, s.1, t.0, t.1);
            if best.map_or(true, |b| d < b) {
                best = Some(d);
                // classify: do the closest points sit at vertices of both?
                let vv = [s.0, s.1].iter().any(|p| [t.0, t.1].iter().any(|q| {
                    let dd = (p.0 - q.0) as i128 * (p.0 - q.0) as i128 + (p.1 - q.1) as i128 * (p.1 - q.1) as i128;
                    Rat::int(dd) == d
                }));
                let parallel = s.0 != s.1 && t.0 != t.1 && (s.1 .0 - s.0 .0) * (t.1 .1 - t.0 .1) == (s.1 .1 - s.0 .1) * (t.1 .0 - t.0 .0);
                kind = if parallel && !vv { "closest:parallel-edges" } else if vv { "closest:vertex-vertex" } else { "closest:vertex-edge" };
            }
        }
    }
    (best.unwrap_or(Rat::int(0)), kind)
}

pub fn euclid(ga: &geo::Geometry<f64>, gb: &geo::Geometry<f64>) -> Result<f64, crate::engine::PanicInfo> {
    guard(std::panic::AssertUnwindSafe(|| with_concrete!(ga, a => with_concrete!(gb, b => Euclidean.distance(a, b)))))
}

impl Property for C07 {
    type Case = Case;
    const ID: &'static str = "C07";
    fn strategy(_tier: Tier) -> BoxedStrategy<Case> {
        let general = (pair_strategy(), xf_strategy(), any::<u64>())
            .prop_filter_map("empty operand", |(Pair { a, b }, xf, vsel)| if a.is_empty() || b.is_empty() { None } else { Some(Case { a, b, xf, vsel, near: None, trusted: true }) });
        // 1 case in 12: the zero / non-zero clause on ill-conditioned input (C03's triples: points on or an ulp off a segment),
        // and (1 in 12) pairs with an EMPTY operand (no value is specified for them, but no call may panic and the two operand
        // orders must agree)
        let near = crate::props::c03::triple_strategy().prop_map(|t| Case { a: G::MultiPoint(vec![]), b: G::MultiPoint(vec![]), xf: Xf::ID, vsel: 0, near: Some(t), trusted: true });
        let with_empty = (pair_strategy(), any::<u64>()).prop_map(|(Pair { a, b }, vsel)| {
            let e = match vsel % 5 { 0 => G::Polygon(crate::refgeom::Poly::new(vec![], vec![])), 1 => G::LineString(vec![]), 2 => G::MultiPolygon(vec![]), 3 => G::MultiPoint(vec![]), _ => G::Coll(vec![]) };
            if vsel & 8 == 0 { Case { a, b: e, xf: Xf::ID, vsel, near: None, trusted: true } } else { Case { a: e, b, xf: Xf::ID, vsel, near: None, trusted: true } }
        });
        // 1 case in 13: the second operand inside a hole of a polygon with many holes (nested hole envelopes)
        let in_hole = (prop_oneof![3 => holes_pair_strategy().boxed(), 1 => nested_holes_pair_strategy().boxed()], xf_strategy(), any::<u64>())
            .prop_filter_map("empty operand", |(Pair { a, b }, xf, vsel)| if a.is_empty() || b.is_empty() { None } else { Some(Case { a, b, xf, vsel, near: None, trusted: true }) });
        prop_oneof![10 => general.boxed(), 1 => near.boxed(), 1 => with_empty.boxed(), 1 => in_hole.boxed()].boxed()
    }
    fn quota(tier: Tier) -> u64 {
        tier.pick(1_200_000, 24_000_000)
    }
    fn rule() -> String {
        "Ordered pairs of non-empty valid geometries from the C01 scene generator (all type pairs, nested polygons, operand inside a \
         hole, touching and crossing pairs, disjoint pairs with vertex-vertex / vertex-edge / parallel-edge closest approach), under \
         exact similarities. Oracle: 0 if the exact DE-9IM says they intersect, else sqrt of the exact rational minimum squared \
         distance over all primitive pairs, times 2^k. Checked: value (relative 1e-12 + 4 ulp of the coordinate magnitude), exactly 0.0 \
         iff intersecting, symmetry, Geometry-enum path, same value for 2 re-representations. Non-trivial = the operands do not \
         intersect while their bounding boxes do. Sub-cases: a point against an oblique segment at rounding level (exact on-segment \
         test decides the zero clause), empty operands (no panic, order / wrapper independent), and point sets at an extreme uniform \
         scale 2^+-520..999 (the distance is representable although its square is not); 1 case in 13: the second operand inside a \
         hole of a polygon with many holes, incl. a template with a small hole in the notch of an L-shaped hole (nested hole envelopes)."
            .into()
    }
    fn must_hit() -> Vec<&'static str> {
        vec!["closest:vertex-vertex", "closest:vertex-edge", "closest:parallel-edges", "co:operand-in-hole", "bbox:nested", "intersecting"]
    }
    fn show(c: &Case) -> Value {
        json!({"a": wkt(&c.a), "b": wkt(&c.b), "xf": c.xf, "vsel": c.vsel})
    }
    fn check(c: &Case, obs: &mut Obs) {
        if let Some(t) = &c.near {
            check_near(t, obs);
            return;
        }
        if c.a.is_empty() || c.b.is_empty() {
            // no distance is specified for an empty operand; the calls must not panic and must agree in both orders
            obs.label("empty-operand");
            let (ga, gb) = (to_geo(&c.a, &c.xf), to_geo(&c.b, &c.xf));
            let (ta, tb) = (c.a.type_name(), c.b.type_name());
            let ctx = || format!("A={} B={}", wkt(&c.a), wkt(&c.b));
            match (euclid(&ga, &gb), euclid(&gb, &ga), guard(std::panic::AssertUnwindSafe(|| Euclidean.distance(&ga, &gb)))) {
                (Ok(d1), Ok(d2), Ok(d3)) => {
                    obs.cmp();
                    obs.expect(d1 == d2 && d1 == d3, &format!("distance:{ta}/{tb}|empty-operand|order-or-wrapper-dependent"), || format!("{d1} / {d2} / {d3}; {}", ctx()));
                }
                (r1, r2, r3) => {
                    for r in [r1, r2, r3] {
                        if let Err(p) = r {
                            obs.fail(format!("distance:{ta}/{tb}|empty-operand|panic|{}", p.site()), format!("{} {}", p, ctx()));
                        }
                    }
                }
            }
            return;
        }
        if !c.trusted && !(in_relate_domain(&c.a) && in_relate_domain(&c.b)) {
            obs.label("skipped:out-of-domain");
            return;
        }
        let (m, info) = de9im_info(&c.a, &c.b);
        let (ta, tb) = (c.a.type_name(), c.b.type_name());
        obs.label(format!("tp:{ta}/{tb}"));
        coincidence_labels(&c.a, &c.b, &info, obs);
        let s = c.xf.scale();
        let (want, kind) = if m.intersects() {
            obs.label("intersecting");
            (0.0, "intersecting")
        } else {
            let (d2, kind) = exact_dist2(&c.a, &c.b);
            (d2.to_f64().sqrt() * s, kind)
        };
        obs.label(kind);
        if !m.intersects() && bbox_class(&c.a, &c.b) != "bbox:disjoint" {
            obs.nontrivial();
        }
        let maxabs = c.xf.max_abs(&c.a).max(c.xf.max_abs(&c.b));
        let tol = 1e-12 * want + 4.0 * crate::conv::ulp(maxabs);
        let (ga, gb) = (to_geo(&c.a, &c.xf), to_geo(&c.b, &c.xf));
        let ctx = || format!("A={} B={} xf={:?} true DE-9IM={} want={want}", wkt(&c.a), wkt(&c.b), c.xf, m.to_string9());
        let mut judge = |key: String, got: Result<f64, crate::engine::PanicInfo>, obs: &mut Obs| match got {
            Ok(d) => {
                obs.cmp();
                if m.intersects() {
                    if d != 0.0 {
                        obs.fail(format!("{key}|nonzero-for-intersecting|{kind}"), format!("got {d}; {}", ctx()));
                    }
                } else if d == 0.0 {
                    obs.fail(format!("{key}|zero-for-disjoint|{kind}"), format!("got 0; {}", ctx()));
                } else if !((d - want).abs() <= tol) {
                    obs.fail(format!("{key}|value|{kind}"), format!("got {d} (tol {tol}); {}", ctx()));
                }
            }
            Err(p) => obs.fail(format!("{key}|panic|{}", p.site()), format!("{} {}", p, ctx())),
        };
        judge(format!("distance:{ta}/{tb}"), euclid(&ga, &gb), obs);
        judge(format!("distance:{tb}/{ta}"), euclid(&gb, &ga), obs);
        judge(format!("distance:Geometry[{ta}]/Geometry[{tb}]"), guard(std::panic::AssertUnwindSafe(|| Euclidean.distance(&ga, &gb))), obs);
        // one operand concrete, the other wrapped in the enum
        judge(format!("distance:{ta}/Geometry[{tb}]"), guard(std::panic::AssertUnwindSafe(|| with_concrete!(&ga, a => Euclidean.distance(a, &gb)))), obs);
        judge(format!("distance:Geometry[{ta}]/{tb}"), guard(std::panic::AssertUnwindSafe(|| with_concrete!(&gb, b => Euclidean.distance(&ga, b)))), obs);
        // the deprecated EuclideanDistance trait (still exported): concrete pair and enum
        #[allow(deprecated)]
        {
            use geo::EuclideanDistance;
            judge(format!("euclidean_distance(deprecated):{ta}/{tb}"), guard(std::panic::AssertUnwindSafe(|| with_concrete!(&ga, a => with_concrete!(&gb, b => a.euclidean_distance(b))))), obs);
            judge(format!("euclidean_distance(deprecated):Geometry[{ta}]/Geometry[{tb}]"), guard(std::panic::AssertUnwindSafe(|| ga.euclidean_distance(&gb))), obs);
        }
        // Coord / by-value forms
        if let (geo::Geometry::Point(pa), geo::Geometry::Point(pb)) = (&ga, &gb) {
            judge("distance:Coord/Coord".to_string(), guard(std::panic::AssertUnwindSafe(|| Euclidean.distance(pa.0, pb.0))), obs);
            judge("distance:Point/Point(by value)".to_string(), guard(std::panic::AssertUnwindSafe(|| Euclidean.distance(*pa, *pb))), obs);
        }
        // point sets at an extreme uniform scale (2^+-520 .. 2^+-999, exact in f64): the distance of two points is the
        // hypotenuse of the coordinate differences, which is representable although its square is not
        if let (Some(pa), Some(pb)) = (match &c.a { G::Point(p) => Some(vec![*p]), G::MultiPoint(v) => Some(v.clone()), _ => None }, match &c.b { G::Point(p) => Some(vec![*p]), G::MultiPoint(v) => Some(v.clone()), _ => None }) {
            if !m.intersects() && c.xf.tx == 0 && c.xf.ty == 0 {
                obs.label("points-at-extreme-scale");
                let e = 520 + (c.vsel % 480) as i32;
                for e in [e, -e] {
                    let sc = 2f64.powi(e);
                    let mk = |v: &Vec<crate::exact::C>, as_point: bool| -> geo::Geometry<f64> {
                        let pts: Vec<geo::Point<f64>> = v.iter().map(|q| { let d = c.xf.d4(*q); geo::Point::new(d.0 as f64 * sc, d.1 as f64 * sc) }).collect();
                        if as_point && pts.len() == 1 { geo::Geometry::Point(pts[0]) } else { geo::Geometry::MultiPoint(geo::MultiPoint::new(pts)) }
                    };
                    let (xa, xb) = (mk(&pa, matches!(c.a, G::Point(_))), mk(&pb, matches!(c.b, G::Point(_))));
                    let (d2, _) = exact_dist2(&c.a, &c.b);
                    let want_x = d2.to_f64().sqrt() * sc;
                    for (name, r) in [("concrete", euclid(&xa, &xb)), ("transposed", euclid(&xb, &xa)), ("enum", guard(std::panic::AssertUnwindSafe(|| Euclidean.distance(&xa, &xb))))] {
                        match r {
                            Ok(d) => {
                                obs.cmp();
                                obs.expect((d - want_x).abs() <= 4.0 * f64::EPSILON * want_x, &format!("distance:{ta}/{tb}|extreme-scale|value"), || format!("{name}: got {d} want {want_x} at scale 2^{e}; {}", ctx()));
                            }
                            Err(p) => obs.fail(format!("distance:{ta}/{tb}|extreme-scale|panic|{}", p.site()), format!("{name}: {} {}", p, ctx())),
                        }
                    }
                }
            }
        }
        if let (geo::Geometry::Point(pa), geo::Geometry::Line(lb)) = (&ga, &gb) {
            judge("distance:Coord/Line".to_string(), guard(std::panic::AssertUnwindSafe(|| Euclidean.distance(pa.0, lb))), obs);
            judge("distance:Line/Coord".to_string(), guard(std::panic::AssertUnwindSafe(|| Euclidean.distance(lb, pa.0))), obs);
        }
        for r in 0..3u64 {
            let sel = crate::engine::splitmix64(c.vsel ^ r);
            let (va, vb) = match r {
                0 => (variant(&c.a, sel), c.b.clone()),
                1 => (c.a.clone(), variant(&c.b, sel)),
                _ => if sel & 1 == 0 { (crate::conv::noisy(&c.a, sel), c.b.clone()) } else { (c.a.clone(), crate::conv::noisy(&c.b, sel)) },
            };
            if !(in_relate_domain(&crate::conv::denoise(&va)) && in_relate_domain(&crate::conv::denoise(&vb))) || va.is_empty() || vb.is_empty() {
                continue;
            }
            let (gva, gvb) = (to_geo(&va, &c.xf), to_geo(&vb, &c.xf));
            judge(format!("distance:{}/{}", va.type_name(), vb.type_name()), euclid(&gva, &gvb), obs);
        }
    }
}


/// Point against a segment (as Line, one-segment LineString, MultiLineString, through the enum) in raw f64: exactly zero
/// precisely when the point is on the segment (exact arithmetic), the same value however the segment is typed.
fn check_near(t: &[(f64, f64); 3], obs: &mut Obs) {
    use crate::exact::big::orient_f64;
    obs.label("sub:near-segment");
    let in_range = |v: f64| v == 0.0 || (v.is_finite() && v.abs() >= 2f64.powi(-400) && v.abs() <= 2f64.powi(400));
    if !t.iter().all(|p| in_range(p.0) && in_range(p.1)) {
        obs.label("skipped:out-of-domain");
        return;
    }
    let (a, b, p) = (t[0], t[1], t[2]);
    let on = orient_f64(a, b, p) == 0 && p.0 >= a.0.min(b.0) && p.0 <= a.0.max(b.0) && p.1 >= a.1.min(b.1) && p.1 <= a.1.max(b.1);
    // accurate estimate of the true distance (the determinant comes from the adaptive predicate, hence is accurate)
    let (dx, dy) = (b.0 - a.0, b.1 - a.1);
    let len = dx.hypot(dy);
    let det = robust_det(a, b, p);
    let tpar = if len > 0.0 { ((p.0 - a.0) * dx + (p.1 - a.1) * dy) / (len * len) } else { 0.0 };
    let est = if len == 0.0 || tpar <= 0.0 { (p.0 - a.0).hypot(p.1 - a.1) } else if tpar >= 1.0 { (p.0 - b.0).hypot(p.1 - b.1) } else { det.abs() / len };
    let extent = [a, b, p].iter().fold(0.0f64, |m, q| m.max(q.0.abs()).max(q.1.abs())).max(len);
    if on {
        obs.label("near:on-the-segment");
        obs.nontrivial();
    } else if est <= 8.0 * f64::EPSILON * extent {
        obs.label("near:within-rounding-of-the-segment");
        obs.nontrivial();
    }
    let co = |q: (f64, f64)| geo::Coord { x: q.0, y: q.1 };
    let pt = geo::Point(co(p));
    let line = geo::Line::new(co(a), co(b));
    let ls = geo::LineString::new(vec![co(a), co(b)]);
    let mls = geo::MultiLineString::new(vec![ls.clone()]);
    let calls: Vec<(&str, Result<f64, crate::engine::PanicInfo>)> = vec![
        ("Point/Line", guard(std::panic::AssertUnwindSafe(|| Euclidean.distance(&pt, &line)))),
        ("Line/Point", guard(std::panic::AssertUnwindSafe(|| Euclidean.distance(&line, &pt)))),
        ("Point/LineString", guard(std::panic::AssertUnwindSafe(|| Euclidean.distance(&pt, &ls)))),
        ("LineString/Point", guard(std::panic::AssertUnwindSafe(|| Euclidean.distance(&ls, &pt)))),
        ("Point/MultiLineString", guard(std::panic::AssertUnwindSafe(|| Euclidean.distance(&pt, &mls)))),
        ("Geometry[Point]/Geometry[LineString]", guard(std::panic::AssertUnwindSafe(|| Euclidean.distance(&geo::Geometry::Point(pt), &geo::Geometry::LineString(ls.clone()))))),
    ];
    let ctx = || format!("a={:?} b={:?} p={:?} on={on} true distance ~ {est}", a, b, p);
    for (name, r) in calls {
        match r {
            Ok(d) => {
                obs.cmp();
                if on {
                    if d != 0.0 {
                        let class = if d <= 8.0 * f64::EPSILON * extent { "within-rounding-of-the-extent" } else { "clearly-nonzero" };
                        obs.fail(format!("distance:{name}|nonzero-for-intersecting|near-segment|{class}"), format!("got {d}; {}", ctx()));
                    }
                } else if d == 0.0 {
                    // input class for the known-findings matcher: how far is the point really?
                    let class = if est <= 8.0 * f64::EPSILON * extent { "within-rounding-of-the-extent" } else { "clearly-apart" };
                    obs.fail(format!("distance:{name}|zero-for-disjoint|near-segment|{class}"), format!("got 0; {}", ctx()));
                } else {
                    obs.expect((d - est).abs() <= 1e-9 * est + 8.0 * f64::EPSILON * extent, &format!("distance:{name}|value|near-segment"), || format!("got {d}; {}", ctx()));
                }
            }
            Err(pn) => obs.fail(format!("distance:{name}|panic|{}", pn.site()), format!("{} {}", pn, ctx())),
        }
    }
}

/// the orientation determinant, evaluated accurately: exact sign from the dyadic oracle, magnitude from a compensated product
fn robust_det(a: (f64, f64), b: (f64, f64), c: (f64, f64)) -> f64 {
    use crate::exact::big::Dy;
    let d = |v: f64| Dy::from_f64(v);
    let l = d(b.0).sub(&d(a.0)).mul(&d(c.1).sub(&d(a.1)));
    let r = d(b.1).sub(&d(a.1)).mul(&d(c.0).sub(&d(a.0)));
    l.sub(&r).to_f64()
}
