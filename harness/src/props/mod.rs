pub mod c01;
