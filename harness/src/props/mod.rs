pub mod c01;
pub mod c02;
pub mod c17;
pub mod c18;
pub mod c19;
