//! C13 — affine transforms obey matrix algebra and commute with the algorithms.
use crate::conv::{to_geo, ulp, wkt, Xf};
use crate::engine::{guard, Obs, Property, Tier};
use crate::gen::{geom_strategy, pair_strategy, xf_strategy, Pair};
use crate::props::c01::{relate_concrete, relate_enum};
use crate::refgeom::validity::in_relate_domain;
use crate::refgeom::G;
use crate::with_concrete;
use geo::algorithm::winding_order::Winding;
use geo::coordinate_position::CoordinatePosition;
use geo::{
    AffineOps, AffineTransform, Area, BoundingRect, Centroid, Contains, ConvexHull, Coord, CoordsIter, Distance, Euclidean, Geometry, Intersects,
    Length, Point, Rotate, Scale, Skew, Translate,
};
use proptest::prelude::*;
use serde::{Deserialize, Serialize};

#[derive(Clone, Debug, Serialize, Deserialize)]
pub enum Case {
    /// chain of integer matrices [a,b,xoff,d,e,yoff] applied to lattice coordinates
    IntAlgebra { chain: Vec<[i64; 6]>, pts: Vec<(i64, i64)> },
    /// chain of f64 matrices
    FloatAlgebra { chain: Vec<[f64; 6]>, pts: Vec<(f64, f64)> },
    /// constructors and trait forms on a geometry: (kind, p1, p2, origin)
    Traits { g: G, kind: u8, p1: f64, p2: f64, origin: (f64, f64) },
    /// commutation of the algorithms with an exact similarity
    Commute { a: G, b: G, xf: Xf, q: (i64, i64) },
}

pub struct C13;

fn tf_i(m: &[i64; 6]) -> AffineTransform<i64> {
    AffineTransform::new(m[0], m[1], m[2], m[3], m[4], m[5])
}
fn tf_f(m: &[f64; 6]) -> AffineTransform<f64> {
    AffineTransform::new(m[0], m[1], m[2], m[3], m[4], m[5])
}

fn all_coords(g: &Geometry<f64>) -> Vec<Coord<f64>> {
    g.coords_iter().collect()
}

/// Structural comparison of `out` with the image of `orig` under `f`: member by member, coordinate by coordinate;
/// a Triangle may come back with its vertices permuted (Triangle::new re-orders them counter-clockwise), a Rect
/// is the re-normalised rectangle through the images of its two defining corners (documented on MapCoords).
fn cmp_mapped(orig: &Geometry<f64>, out: &Geometry<f64>, f: &dyn Fn(Coord<f64>) -> Coord<f64>, tol_of: &dyn Fn(&Coord<f64>) -> f64) -> Result<(), String> {
    let close = |a: &Coord<f64>, w: Coord<f64>, b: &Coord<f64>| { let t = tol_of(a); (w.x - b.x).abs() <= t && (w.y - b.y).abs() <= t };
    match (orig, out) {
        (Geometry::GeometryCollection(a), Geometry::GeometryCollection(b)) => {
            if a.0.len() != b.0.len() {
                return Err(format!("collection of {} members became {}", a.0.len(), b.0.len()));
            }
            for (x, y) in a.0.iter().zip(b.0.iter()) {
                cmp_mapped(x, y, f, tol_of)?;
            }
            Ok(())
        }
        (Geometry::Triangle(a), Geometry::Triangle(b)) => {
            let (cs, oc) = (a.to_array(), b.to_array());
            let want: Vec<Coord<f64>> = cs.iter().map(|a| f(*a)).collect();
            let perms = [[0, 1, 2], [0, 2, 1], [1, 0, 2], [1, 2, 0], [2, 0, 1], [2, 1, 0]];
            if perms.iter().any(|pm| (0..3).all(|i| close(&cs[i], want[i], &oc[pm[i]]))) {
                Ok(())
            } else {
                Err(format!("triangle vertices {:?} -> {:?}, expected (in some order) {:?}", cs, oc, want))
            }
        }
        (Geometry::Rect(a), Geometry::Rect(b)) => {
            let want = geo::Rect::new(f(a.min()), f(a.max()));
            let t = tol_of(&a.min()).max(tol_of(&a.max()));
            let ok = |u: Coord<f64>, v: Coord<f64>| (u.x - v.x).abs() <= t && (u.y - v.y).abs() <= t;
            if ok(want.min(), b.min()) && ok(want.max(), b.max()) {
                Ok(())
            } else {
                Err(format!("{:?} -> {:?}, expected {:?}", a, b, want))
            }
        }
        (a, b) if std::mem::discriminant(a) == std::mem::discriminant(b) => {
            let (cs, oc) = (all_coords(a), all_coords(b));
            if cs.len() != oc.len() {
                return Err(format!("{} coordinates became {}", cs.len(), oc.len()));
            }
            for (i, (a, b)) in cs.iter().zip(oc.iter()).enumerate() {
                let w = f(*a);
                if !close(a, w, b) {
                    return Err(format!("coord {i}: {:?} -> {:?}, expected {:?} (tol {})", a, b, w, tol_of(a)));
                }
            }
            Ok(())
        }
        (a, b) => Err(format!("type changed: {:?} -> {:?}", a, b)),
    }
}

fn dyadic() -> impl Strategy<Value = f64> {
    (-64i32..65, 0u32..5).prop_map(|(m, e)| m as f64 / (1u32 << e) as f64)
}

impl Property for C13 {
    type Case = Case;
    const ID: &'static str = "C13";
    fn strategy(_tier: Tier) -> BoxedStrategy<Case> {
        let imat = || [-8i64..9, -8i64..9, -64i64..65, -8i64..9, -8i64..9, -64i64..65];
        let unimod = || (-3i64..4, -3i64..4, -3i64..4, -64i64..65, -64i64..65, any::<bool>()).prop_map(|(p, q, r, x, y, neg)| {
            // product of shears (and optionally a reflection): determinant +-1
            let (a, b, d, e) = (1 + p * q, p, q + r * (1 + p * q), 1 + p * r);
            let _ = r;
            let (a, b, d, e) = (a, b, d - 0 * e, e);
            // recompute to be exactly unimodular: [[1,p],[0,1]] * [[1,0],[q,1]]
            let (a, b, d, e) = { let _ = (a, b, d, e); (1 + p * q, p, q, 1) };
            if neg { [-a, -b, x, d, e, y] } else { [a, b, x, d, e, y] }
        });
        let fmat = || prop_oneof![
            [dyadic(), dyadic(), dyadic(), dyadic(), dyadic(), dyadic()],
            // small integers times one power of two (uniformly tiny / huge scalings): the determinant is exact
            ([-8i32..9, -8i32..9, -8i32..9, -8i32..9, -8i32..9, -8i32..9], -40i32..41).prop_map(|(m, k)| { let s = 2f64.powi(k); [m[0] as f64 * s, m[1] as f64 * s, m[2] as f64, m[3] as f64 * s, m[4] as f64 * s, m[5] as f64] }),
            [-10.0f64..10.0, -10.0f64..10.0, -100.0f64..100.0, -10.0f64..10.0, -10.0f64..10.0, -100.0f64..100.0],
        ];
        prop_oneof![
            2 => (proptest::collection::vec(prop_oneof![imat().prop_map(|m| m), unimod()], 1..7), proptest::collection::vec((-20i64..21, -20i64..21), 1..5))
                .prop_map(|(chain, pts)| Case::IntAlgebra { chain, pts }),
            2 => (proptest::collection::vec(fmat(), 1..7), proptest::collection::vec((-100.0f64..100.0, -100.0f64..100.0), 1..5))
                .prop_map(|(chain, pts)| Case::FloatAlgebra { chain, pts }),
            3 => (prop_oneof![3 => geom_strategy(), 1 => crate::props::c19::structural_strategy()], 0u8..36, prop_oneof![3 => dyadic(), 3 => -720.0f64..720.0, 2 => (-9i32..10).prop_map(|k| k as f64 * 90.0), 1 => (-17i32..18).prop_map(|k| k as f64 * 45.0)], prop_oneof![dyadic(), -80.0f64..80.0], (dyadic(), dyadic()))
                .prop_map(|(g, kind, p1, p2, origin)| Case::Traits { g, kind, p1, p2, origin }),
            5 => (pair_strategy(), xf_strategy(), (-2i64..16, -2i64..16)).prop_map(|(Pair { a, b }, xf, q)| Case::Commute { a, b, xf, q }),
        ]
        .boxed()
    }
    fn quota(tier: Tier) -> u64 {
        tier.pick(2_000_000, 40_000_000)
    }
    fn rule() -> String {
        "Four sub-domains. IntAlgebra: chains of 1-6 AffineTransform<i64> (entries in +-8 / +-64, incl. unimodular ones) on lattice \
         coordinates: compose = apply-then-apply exactly, compose_many = fold, inverse None iff the exact determinant is 0 and exact \
         for unimodular matrices. FloatAlgebra: the same laws for dyadic and arbitrary f64 matrices with relative tolerance 1e-12 \
         (inverse for |det| well away from 0). Traits: every geometry type x translate / scale / scale_xy / rotate / skew in their \
         default-origin (centroid resp. bounding-box centre, recomputed by the harness), around-point and _mut forms, compared \
         coordinate by coordinate with the documented matrix. Commute: scene pairs x exact similarity T (D4, 2^k, integer translation \
         up to 2^40): relate matrix, intersects, contains, coordinate_position, winding, hull vertex set identical before and after; \
         area x 4^k, length and distance x 2^k, centroid, bounding rect mapped by T. Non-trivial = T (or the chain) is not the identity \
         and, for Commute, the operands touch."
            .into()
    }
    fn must_hit() -> Vec<&'static str> {
        vec!["sub:IntAlgebra", "sub:FloatAlgebra", "sub:Traits", "sub:Commute", "singular", "unimodular", "commute:reflection", "commute:quarter-turn", "commute:scaled", "commute:translated"]
    }
    fn check(c: &Case, obs: &mut Obs) {
        match c {
            Case::IntAlgebra { chain, pts } => {
                obs.label("sub:IntAlgebra");
                if chain.is_empty() || chain.iter().flatten().any(|v| v.abs() > 1 << 12) || pts.iter().any(|p| p.0.abs() > 1 << 12 || p.1.abs() > 1 << 12) || chain.len() > 8 {
                    obs.label("skipped:out-of-domain");
                    return;
                }
                if chain.len() > 1 {
                    obs.nontrivial();
                }
                let ts: Vec<AffineTransform<i64>> = chain.iter().map(tf_i).collect();
                // pairwise composition law
                let mut acc = ts[0];
                for t in &ts[1..] {
                    let composed = acc.compose(t);
                    for p in pts {
                        let co = Coord { x: p.0, y: p.1 };
                        let (l, r) = (composed.apply(co), t.apply(acc.apply(co)));
                        obs.expect(l == r, "compose<i64>|not-apply-then-apply", || format!("chain {:?} pt {:?}: {:?} vs {:?}", chain, p, l, r));
                    }
                    acc = composed;
                }
                let many = ts[0].compose_many(&ts[1..]);
                obs.expect(many == acc, "compose_many<i64>|differs-from-fold", || format!("chain {:?}: {:?} vs {:?}", chain, many, acc));
                for (m, t) in chain.iter().zip(ts.iter()) {
                    let det = m[0] * m[4] - m[1] * m[3];
                    let inv = t.inverse();
                    if det == 0 {
                        obs.label("singular");
                    }
                    obs.expect(inv.is_none() == (det == 0), "inverse<i64>|none-iff-singular", || format!("m {:?} det {det} inverse {:?}", m, inv));
                    if det.abs() > 1 {
                        // not singular, but the inverse has no integer entries: whatever is returned as Some must still undo t
                        if let Some(i) = inv {
                            obs.label("integer-matrix-without-integer-inverse");
                            let undoes = t.compose(&i).is_identity() && pts.iter().all(|p| { let co = Coord { x: p.0, y: p.1 }; i.apply(t.apply(co)) == co });
                            obs.expect(undoes, "inverse<i64>|not-an-inverse|non-unimodular-integer-matrix", || format!("m {:?} det {det} inverse {:?}", m, i));
                        }
                    }
                    if det.abs() == 1 {
                        obs.label("unimodular");
                        if let Some(i) = inv {
                            obs.expect(t.compose(&i).is_identity() && i.compose(t).is_identity(), "inverse<i64>|not-an-inverse", || format!("m {:?} inverse {:?}", m, i));
                            for p in pts {
                                let co = Coord { x: p.0, y: p.1 };
                                obs.expect(i.apply(t.apply(co)) == co, "inverse<i64>|does-not-undo", || format!("m {:?} pt {:?}", m, p));
                            }
                        }
                    }
                }
                obs.expect(AffineTransform::<i64>::identity().is_identity() && ts[0].compose(&AffineTransform::identity()) == ts[0], "identity<i64>|not-neutral", || format!("{:?}", chain));
            }
            Case::FloatAlgebra { chain, pts } => {
                obs.label("sub:FloatAlgebra");
                if chain.is_empty() || chain.len() > 8 || chain.iter().flatten().any(|v| !v.is_finite() || v.abs() > 1e6) || pts.iter().any(|p| !p.0.is_finite() || !p.1.is_finite() || p.0.abs() > 1e6 || p.1.abs() > 1e6) {
                    obs.label("skipped:out-of-domain");
                    return;
                }
                if chain.len() > 1 {
                    obs.nontrivial();
                }
                let ts: Vec<AffineTransform<f64>> = chain.iter().map(tf_f).collect();
                let mut acc = ts[0];
                // magnitude bound for tolerances: product of (1 + row norms)
                let mut bound = chain[0].iter().fold(1.0f64, |m, v| m.max(v.abs()));
                for (k, t) in ts.iter().enumerate().skip(1) {
                    let composed = acc.compose(t);
                    bound *= 3.0 * chain[k].iter().fold(1.0f64, |m, v| m.max(v.abs()));
                    for p in pts {
                        let co = Coord { x: p.0, y: p.1 };
                        let (l, r) = (composed.apply(co), t.apply(acc.apply(co)));
                        let tol = 1e-12 * bound * (1.0 + p.0.abs() + p.1.abs());
                        obs.expect((l.x - r.x).abs() <= tol && (l.y - r.y).abs() <= tol, "compose<f64>|not-apply-then-apply", || format!("chain {:?} pt {:?}: {:?} vs {:?} tol {tol}", chain, p, l, r));
                    }
                    acc = composed;
                }
                let many = ts[0].compose_many(&ts[1..]);
                let close = |x: &AffineTransform<f64>, y: &AffineTransform<f64>, tol: f64| {
                    [(x.a(), y.a()), (x.b(), y.b()), (x.xoff(), y.xoff()), (x.d(), y.d()), (x.e(), y.e()), (x.yoff(), y.yoff())].iter().all(|(u, v)| (u - v).abs() <= tol)
                };
                obs.expect(close(&many, &acc, 1e-12 * bound * 4.0), "compose_many<f64>|differs-from-fold", || format!("chain {:?}: {:?} vs {:?}", chain, many, acc));
                for (m, t) in chain.iter().zip(ts.iter()) {
                    // dyadic entries with few bits: the determinant a*e - b*d is computed exactly
                    // entries whose products are exact in f64: few-bit dyadics, or small integers times a common 2^k
                    let lin = [m[0], m[1], m[3], m[4]];
                    let maxl = lin.iter().fold(0.0f64, |s, v| s.max(v.abs()));
                    let pow2 = if maxl > 0.0 { 2f64.powi(maxl.log2().floor() as i32 - 3) } else { 1.0 };
                    let dy = m.iter().all(|v| (v * 16.0).fract() == 0.0 && v.abs() <= 64.0) || (maxl > 0.0 && lin.iter().all(|v| (v / pow2).fract() == 0.0 && (v / pow2).abs() <= 128.0));
                    let det = m[0] * m[4] - m[1] * m[3];
                    let inv = t.inverse();
                    if dy {
                        if det == 0.0 {
                            obs.label("singular");
                        }
                        obs.expect(inv.is_none() == (det == 0.0), "inverse<f64>|none-iff-singular", || format!("m {:?} det {det} inverse {:?}", m, inv));
                    }
                    let norm = m.iter().fold(0.0f64, |s, v| s.max(v.abs()));
                    if let Some(i) = inv {
                        if det.abs() > 1e-3 * norm * norm && norm > 0.0 {
                            let cond = norm * norm / det.abs();
                            let id = t.compose(&i);
                            obs.expect(close(&id, &AffineTransform::identity(), 1e-11 * cond * (1.0 + norm)), "inverse<f64>|not-an-inverse", || format!("m {:?} m*inv {:?}", m, id));
                            for p in pts {
                                let co = Coord { x: p.0, y: p.1 };
                                let back = i.apply(t.apply(co));
                                let tol = 1e-11 * cond * (1.0 + norm) * (1.0 + p.0.abs() + p.1.abs() + m[2].abs() + m[5].abs());
                                obs.expect((back.x - co.x).abs() <= tol && (back.y - co.y).abs() <= tol, "inverse<f64>|does-not-undo", || format!("m {:?} pt {:?} back {:?}", m, p, back));
                            }
                        }
                    }
                }
            }
            Case::Traits { g, kind, p1, p2, origin } => {
                obs.label("sub:Traits");
                let (p1, p2, origin): (f64, f64, (f64, f64)) = (*p1, *p2, *origin);
                // arbitrary structure (one-coordinate line strings, open rings, empty members, nested collections) is in the
                // domain of every form whose origin does not depend on the centroid of a valid geometry
                let structural = !in_relate_domain(g);
                if structural {
                    obs.label("traits:arbitrary-structure");
                }
                if (structural && kind % 36 == 6) || !p1.is_finite() || !p2.is_finite() || p1.abs() > 1e4 || p2.abs() > 1e4 || origin.0.abs() > 1e4 || origin.1.abs() > 1e4 {
                    obs.label("skipped:out-of-domain");
                    return;
                }
                let gg = to_geo(g, &Xf::ID);
                let tn = g.type_name();
                let cs = all_coords(&gg);
                if cs.is_empty() {
                    obs.label("empty");
                }
                obs.nontrivial();
                // harness-side origins
                let bbox_centre = if cs.is_empty() { None } else {
                    let (x0, x1) = (cs.iter().map(|c| c.x).fold(f64::INFINITY, f64::min), cs.iter().map(|c| c.x).fold(f64::NEG_INFINITY, f64::max));
                    let (y0, y1) = (cs.iter().map(|c| c.y).fold(f64::INFINITY, f64::min), cs.iter().map(|c| c.y).fold(f64::NEG_INFINITY, f64::max));
                    Some(Coord { x: (x0 + x1) / 2.0, y: (y0 + y1) / 2.0 })
                };
                let o = Coord { x: origin.0, y: origin.1 };
                // forms 11..35: chained builders in every order of (translated, scaled, rotated, skewed)
                let k = if kind % 36 >= 11 { 11 } else { kind % 36 };
                let perm_sel = (kind % 36).saturating_sub(11) as usize;
                obs.label(format!("trait-form:{k}"));
                // expected map as a closure, and geo's result via the non-mut and the mut form
                type F = Box<dyn Fn(Coord<f64>) -> Coord<f64>>;
                let rot = |deg: f64, o: Coord<f64>| -> F {
                    let (s, c) = deg.to_radians().sin_cos();
                    Box::new(move |p| Coord { x: o.x + c * (p.x - o.x) - s * (p.y - o.y), y: o.y + s * (p.x - o.x) + c * (p.y - o.y) })
                };
                let sca = |fx: f64, fy: f64, o: Coord<f64>| -> F { Box::new(move |p| Coord { x: o.x + fx * (p.x - o.x), y: o.y + fy * (p.y - o.y) }) };
                let ske = |xs: f64, ys: f64, o: Coord<f64>| -> F {
                    let (tx, ty) = (xs.to_radians().tan(), ys.to_radians().tan());
                    Box::new(move |p| Coord { x: p.x + tx * (p.y - o.y), y: p.y + ty * (p.x - o.x) })
                };
                // skew angles near 90 degrees are ill-conditioned: keep them within +-80
                let (s1, s2) = (p1.rem_euclid(160.0) - 80.0, p2);
                let centroid = gg.centroid().map(|p| p.0);
                let r = guard(std::panic::AssertUnwindSafe(|| {
                    with_concrete!(&gg, x => {
                        let (expect, out, out_mut): (Option<F>, Geometry<f64>, Geometry<f64>) = match k {
                            0 => { let mut y = x.clone(); y.translate_mut(p1, p2); (Some(Box::new(move |p: Coord<f64>| Coord { x: p.x + p1, y: p.y + p2 })), crate::conv::IntoGeom::into_geom(x.translate(p1, p2)), crate::conv::IntoGeom::into_geom(y)) }
                            1 => { let mut y = x.clone(); y.scale_mut(p2); (bbox_centre.map(|o| sca(p2, p2, o)), crate::conv::IntoGeom::into_geom(x.scale(p2)), crate::conv::IntoGeom::into_geom(y)) }
                            2 => { let mut y = x.clone(); y.scale_xy_mut(p2, s1 / 16.0); (bbox_centre.map(|o| sca(p2, s1 / 16.0, o)), crate::conv::IntoGeom::into_geom(x.scale_xy(p2, s1 / 16.0)), crate::conv::IntoGeom::into_geom(y)) }
                            3 => { let mut y = x.clone(); y.scale_around_point_mut(p2, s1 / 16.0, o); (Some(sca(p2, s1 / 16.0, o)), crate::conv::IntoGeom::into_geom(x.scale_around_point(p2, s1 / 16.0, o)), crate::conv::IntoGeom::into_geom(y)) }
                            4 => { let mut y = x.clone(); y.rotate_around_point_mut(p1, Point(o)); (Some(rot(p1, o)), crate::conv::IntoGeom::into_geom(x.rotate_around_point(p1, Point(o))), crate::conv::IntoGeom::into_geom(y)) }
                            5 => { let mut y = x.clone(); y.rotate_around_center_mut(p1); (bbox_centre.map(|o| rot(p1, o)), crate::conv::IntoGeom::into_geom(x.rotate_around_center(p1)), crate::conv::IntoGeom::into_geom(y)) }
                            6 => { let mut y = x.clone(); y.rotate_around_centroid_mut(p1); (centroid.map(|o| rot(p1, o)), crate::conv::IntoGeom::into_geom(x.rotate_around_centroid(p1)), crate::conv::IntoGeom::into_geom(y)) }
                            7 => { let mut y = x.clone(); y.skew_mut(s1); (bbox_centre.map(|o| ske(s1, s1, o)), crate::conv::IntoGeom::into_geom(x.skew(s1)), crate::conv::IntoGeom::into_geom(y)) }
                            8 => { let mut y = x.clone(); y.skew_xy_mut(s1, s2.clamp(-80.0, 80.0)); (bbox_centre.map(|o| ske(s1, s2.clamp(-80.0, 80.0), o)), crate::conv::IntoGeom::into_geom(x.skew_xy(s1, s2.clamp(-80.0, 80.0))), crate::conv::IntoGeom::into_geom(y)) }
                            9 => { let mut y = x.clone(); y.skew_around_point_mut(s1, s2.clamp(-80.0, 80.0), o); (Some(ske(s1, s2.clamp(-80.0, 80.0), o)), crate::conv::IntoGeom::into_geom(x.skew_around_point(s1, s2.clamp(-80.0, 80.0), o)), crate::conv::IntoGeom::into_geom(y)) }
                            10 => {
                                // affine_transform with an explicit matrix vs apply() on every coordinate
                                // each linear entry independently zero / unit / generic: triangular, diagonal, shear-only and
                                // full matrices all occur
                                let h = crate::engine::splitmix64(p1.to_bits() ^ p2.to_bits().rotate_left(17) ^ origin.0.to_bits().rotate_left(31));
                                let pickv = |sel: u64, generic: f64| match sel & 3 { 0 => 0.0, 1 => 1.0, 2 => -1.0, _ => generic };
                                let t = AffineTransform::new(pickv(h, p2), pickv(h >> 2, s1 / 32.0), origin.0, pickv(h >> 4, -s1 / 64.0), pickv(h >> 6, p2 + 1.0), origin.1);
                                let mut y = x.clone(); y.affine_transform_mut(&t);
                                (Some(Box::new(move |p: Coord<f64>| t.apply(p))), crate::conv::IntoGeom::into_geom(x.affine_transform(&t)), crate::conv::IntoGeom::into_geom(y))
                            }
                            _ => {
                                // chained builder forms equal the composition of the constructors, in every order
                                // (the builders must compose with the WHOLE current matrix, off-diagonal terms included)
                                const PERMS: [[usize; 4]; 24] = [[0,1,2,3],[0,1,3,2],[0,2,1,3],[0,2,3,1],[0,3,1,2],[0,3,2,1],[1,0,2,3],[1,0,3,2],[1,2,0,3],[1,2,3,0],[1,3,0,2],[1,3,2,0],
                                    [2,0,1,3],[2,0,3,1],[2,1,0,3],[2,1,3,0],[2,3,0,1],[2,3,1,0],[3,0,1,2],[3,0,2,1],[3,1,0,2],[3,1,2,0],[3,2,0,1],[3,2,1,0]];
                                let mut t = AffineTransform::<f64>::identity();
                                let mut u = AffineTransform::<f64>::identity();
                                for op in PERMS[perm_sel % 24] {
                                    match op {
                                        0 => { t = t.translated(p2, 1.0); u = u.compose(&AffineTransform::translate(p2, 1.0)); }
                                        1 => { t = t.scaled(2.0, 0.5, o); u = u.compose(&AffineTransform::scale(2.0, 0.5, o)); }
                                        2 => { t = t.rotated(p1, o); u = u.compose(&AffineTransform::rotate(p1, o)); }
                                        _ => { t = t.skewed(s1 / 4.0, 0.0, o); u = u.compose(&AffineTransform::skew(s1 / 4.0, 0.0, o)); }
                                    }
                                }
                                let mut y = x.clone(); y.affine_transform_mut(&u);
                                (Some(Box::new(move |p: Coord<f64>| t.apply(p))), crate::conv::IntoGeom::into_geom(x.affine_transform(&t)), crate::conv::IntoGeom::into_geom(y))
                            }
                        };
                        (expect, out, out_mut)
                    })
                }));
                let (expect, out, out_mut) = match r {
                    Ok(v) => v,
                    Err(p) => {
                        obs.fail(format!("affine-trait:{tn}|form{k}|panic|{}", p.site()), format!("{} g={}", p, wkt(g)));
                        return;
                    }
                };
                obs.expect(all_coords(&out) == all_coords(&out_mut), &format!("affine-trait:{tn}|form{k}|mut-differs"), || format!("g={} p1={p1} p2={p2}", wkt(g)));
                let oc = all_coords(&out);
                // Rect re-normalises its corners and maps only two of them: compare its bounds only when the map is axis-preserving
                match expect {
                    None => obs.expect(oc == cs, &format!("affine-trait:{tn}|form{k}|empty-changed"), || format!("g={}", wkt(g))),
                    Some(f) => {
                        let amp = 1.0 + p2.abs() + (s1.to_radians().tan()).abs() + (s2.clamp(-80.0, 80.0).to_radians().tan()).abs() + s1.abs() / 16.0;
                        let tol_of = |a: &Coord<f64>| 1e-9 * amp * (1.0 + a.x.abs() + a.y.abs() + origin.0.abs() + origin.1.abs() + p1.abs().min(1e3) + p2.abs());
                        if let Err(e) = cmp_mapped(&gg, &out, &*f, &tol_of) {
                            obs.fail(format!("affine-trait:{tn}|form{k}|coordinate"), format!("{e}; g={} p1={p1} p2={p2} s1={s1} origin={:?}", wkt(g), origin));
                        }
                    }
                }
            }
            Case::Commute { a, b, xf, q } => {
                obs.label("sub:Commute");
                if !(in_relate_domain(a) && in_relate_domain(b)) {
                    obs.label("skipped:out-of-domain");
                    return;
                }
                if xf.is_identity() {
                    obs.label("commute:identity");
                } else {
                    if xf.reflects() { obs.label("commute:reflection"); }
                    if xf.d4 % 4 == 1 || xf.d4 % 4 == 3 { obs.label("commute:quarter-turn"); }
                    if xf.k != 0 { obs.label("commute:scaled"); }
                    if xf.tx != 0 || xf.ty != 0 { obs.label("commute:translated"); }
                }
                let (ta, tb) = (a.type_name(), b.type_name());
                let (a0, b0) = (to_geo(a, &Xf::ID), to_geo(b, &Xf::ID));
                let (a1, b1) = (to_geo(a, xf), to_geo(b, xf));
                let ctx = || format!("A={} B={} xf={:?}", wkt(a), wkt(b), xf);
                let s = xf.scale();
                // DE-9IM matrices
                match (relate_concrete(&a0, &b0), relate_concrete(&a1, &b1), relate_enum(&a1, &b1)) {
                    (Ok(m0), Ok(m1), Ok(m2)) => {
                        if m0.intersects() && !xf.is_identity() {
                            obs.nontrivial();
                        }
                        obs.expect(m0 == m1 && m1 == m2, &format!("commute|relate:{ta}/{tb}"), || format!("{} before, {} / {} after; {}", m0.to_string9(), m1.to_string9(), m2.to_string9(), ctx()));
                    }
                    (r0, r1, _) => {
                        for r in [r0, r1] {
                            if let Err(p) = r {
                                obs.fail(format!("commute|relate:{ta}/{tb}|panic|{}", p.site()), format!("{} {}", p, ctx()));
                            }
                        }
                    }
                }
                // predicates
                let pred = |x: &Geometry<f64>, y: &Geometry<f64>| guard(std::panic::AssertUnwindSafe(|| with_concrete!(x, u => with_concrete!(y, v => (u.intersects(v), u.contains(v))))));
                if let (Ok(p0), Ok(p1)) = (pred(&a0, &b0), pred(&a1, &b1)) {
                    obs.expect(p0 == p1, &format!("commute|intersects-contains:{ta}/{tb}"), || format!("{:?} before, {:?} after; {}", p0, p1, ctx()));
                }
                use geo::Within;
                let pred2 = |x: &Geometry<f64>, y: &Geometry<f64>| guard(std::panic::AssertUnwindSafe(|| (x.is_within(y), y.is_within(x), y.intersects(x), y.contains(x))));
                if let (Ok(p0), Ok(p1)) = (pred2(&a0, &b0), pred2(&a1, &b1)) {
                    obs.expect(p0 == p1, &format!("commute|within-and-swapped-predicates:{ta}/{tb}"), || format!("{:?} before, {:?} after; {}", p0, p1, ctx()));
                }
                // validity is a predicate too
                {
                    use geo::algorithm::validation::Validation;
                    if let (Ok(v0), Ok(v1)) = (guard(std::panic::AssertUnwindSafe(|| (a0.is_valid(), b0.is_valid()))), guard(std::panic::AssertUnwindSafe(|| (a1.is_valid(), b1.is_valid())))) {
                        obs.expect(v0 == v1, &format!("commute|is_valid:{ta}/{tb}"), || format!("{:?} before, {:?} after; {}", v0, v1, ctx()));
                    }
                }
                // coordinate position of a lattice point
                let (q0, q1) = (Xf::ID.apply(*q), xf.apply(*q));
                for (g0, g1, t) in [(&a0, &a1, ta), (&b0, &b1, tb)] {
                    if let (Ok(c0), Ok(c1)) = (guard(std::panic::AssertUnwindSafe(|| g0.coordinate_position(&q0))), guard(std::panic::AssertUnwindSafe(|| g1.coordinate_position(&q1)))) {
                        obs.expect(c0 == c1, &format!("commute|coordinate_position:{t}"), || format!("q={:?}: {:?} before, {:?} after; {}", q, c0, c1, ctx()));
                    }
                }
                // measures
                let rel = |x: f64, y: f64, scale: f64| (x * scale - y).abs() <= 1e-12 * (x * scale).abs().max(y.abs()) + 1e-300;
                for (g0, g1, gm, t) in [(&a0, &a1, a, ta), (&b0, &b1, b, tb)] {
                    let (ar0, ar1) = (g0.unsigned_area(), g1.unsigned_area());
                    obs.expect(rel(ar0, ar1, s * s), &format!("commute|unsigned_area:{t}"), || format!("{ar0} before, {ar1} after (factor {}); {}", s * s, ctx()));
                    // the signed area additionally changes sign under a reflection
                    let (sa0, sa1) = (g0.signed_area(), g1.signed_area());
                    // (a Rect has no orientation - its signed area is never negative - so only geometries without one flip)
                    fn has_rect(g: &G) -> bool { match g { G::Rect(..) => true, G::Coll(v) => v.iter().any(has_rect), _ => false } }
                    let sgn = if xf.reflects() && !matches!(gm, G::Rect(..)) { -1.0 } else { 1.0 };
                    obs.expect(rel(sa0 * sgn, sa1, s * s) || (has_rect(gm) && !matches!(gm, G::Rect(..))), &format!("commute|signed_area:{t}"), || format!("{sa0} before, {sa1} after (factor {}); {}", sgn * s * s, ctx()));
                    // length of linear types
                    let len = |g: &Geometry<f64>| -> Option<f64> {
                        match g {
                            Geometry::Line(l) => Some(Euclidean.length(l)),
                            Geometry::LineString(l) => Some(Euclidean.length(l)),
                            Geometry::MultiLineString(l) => Some(Euclidean.length(l)),
                            _ => None,
                        }
                    };
                    if let (Some(l0), Some(l1)) = (len(g0), len(g1)) {
                        obs.expect(rel(l0, l1, s), &format!("commute|length:{t}"), || format!("{l0} before, {l1} after (factor {s}); {}", ctx()));
                    }
                    // bounding rect and centroid are mapped by T
                    let maxabs = xf.max_abs(gm);
                    let tol = 16.0 * ulp(maxabs) + 1e-9 * s;
                    let (br0, br1): (Option<geo::Rect<f64>>, Option<geo::Rect<f64>>) = (g0.bounding_rect(), g1.bounding_rect());
                    match (br0, br1) {
                        (Some(r0), Some(r1)) => {
                            let (c1, c2) = (xf.apply_f(r0.min().x, r0.min().y), xf.apply_f(r0.max().x, r0.max().y));
                            let want = geo::Rect::new(c1, c2);
                            obs.expect(want == r1, &format!("commute|bounding_rect:{t}"), || format!("{:?} mapped {:?} vs {:?}; {}", r0, want, r1, ctx()));
                        }
                        (None, None) => {}
                        _ => obs.fail(format!("commute|bounding_rect:{t}|none-mismatch"), ctx()),
                    }
                    match (g0.centroid(), g1.centroid()) {
                        (Some(c0), Some(c1)) => {
                            let w = xf.apply_f(c0.x(), c0.y());
                            obs.expect((w.x - c1.x()).abs() <= tol && (w.y - c1.y()).abs() <= tol, &format!("commute|centroid:{t}"), || format!("{:?} mapped {:?} vs {:?} tol {tol}; {}", c0, w, c1, ctx()));
                        }
                        (None, None) => {}
                        _ => obs.fail(format!("commute|centroid:{t}|none-mismatch"), ctx()),
                    }
                    // hull vertex set mapped by T
                    if !gm.is_empty() {
                        let (h0, h1) = (g0.convex_hull(), g1.convex_hull());
                        let mut m0: Vec<(u64, u64)> = h0.exterior().0.iter().map(|c| { let w = xf.apply_f(c.x, c.y); ((w.x + 0.0).to_bits(), (w.y + 0.0).to_bits()) }).collect();
                        let mut m1: Vec<(u64, u64)> = h1.exterior().0.iter().map(|c| ((c.x + 0.0).to_bits(), (c.y + 0.0).to_bits())).collect();
                        m0.sort();
                        m0.dedup();
                        m1.sort();
                        m1.dedup();
                        obs.expect(m0 == m1, &format!("commute|convex_hull:{t}"), || format!("{:?} vs {:?}; {}", h0, h1, ctx()));
                    }
                    // winding of polygon exteriors: flips exactly under reflections
                    if let (Geometry::Polygon(p0), Geometry::Polygon(p1)) = (g0, g1) {
                        let (w0, w1) = (p0.exterior().winding_order(), p1.exterior().winding_order());
                        let flip = |w: geo::algorithm::winding_order::WindingOrder| match w { geo::algorithm::winding_order::WindingOrder::Clockwise => geo::algorithm::winding_order::WindingOrder::CounterClockwise, _ => geo::algorithm::winding_order::WindingOrder::Clockwise };
                        let same = if xf.reflects() { w0.map(flip) == w1 } else { w0 == w1 };
                        obs.expect(same, "commute|winding_order", || format!("{:?} before, {:?} after; {}", w0, w1, ctx()));
                    }
                }
                // Hausdorff distance (every pair) and Frechet distance (two line strings) scale like lengths
                if !a.is_empty() && !b.is_empty() {
                    use geo::{FrechetDistance, HausdorffDistance};
                    let maxabs = xf.max_abs(a).max(xf.max_abs(b));
                    if let (Ok(h0), Ok(h1)) = (guard(std::panic::AssertUnwindSafe(|| a0.hausdorff_distance(&b0))), guard(std::panic::AssertUnwindSafe(|| a1.hausdorff_distance(&b1)))) {
                        let ok = (h0 * s - h1).abs() <= 1e-12 * h1.abs() + 4.0 * ulp(maxabs);
                        obs.expect(ok, &format!("commute|hausdorff_distance:{ta}/{tb}"), || format!("{h0} before, {h1} after (factor {s}); {}", ctx()));
                    }
                    if let (Geometry::LineString(l0), Geometry::LineString(m0), Geometry::LineString(l1), Geometry::LineString(m1)) = (&a0, &b0, &a1, &b1) {
                        if let (Ok(f0), Ok(f1)) = (guard(std::panic::AssertUnwindSafe(|| l0.frechet_distance(m0))), guard(std::panic::AssertUnwindSafe(|| l1.frechet_distance(m1)))) {
                            let ok = (f0 * s - f1).abs() <= 1e-12 * f1.abs() + 4.0 * ulp(maxabs);
                            obs.expect(ok, "commute|frechet_distance", || format!("{f0} before, {f1} after (factor {s}); {}", ctx()));
                        }
                    }
                }
                // distance
                if !a.is_empty() && !b.is_empty() {
                    if let (Ok(d0), Ok(d1)) = (crate::props::c07::euclid(&a0, &b0), crate::props::c07::euclid(&a1, &b1)) {
                        let maxabs = xf.max_abs(a).max(xf.max_abs(b));
                        let ok = (d0 == 0.0) == (d1 == 0.0) && (d0 * s - d1).abs() <= 1e-12 * d1.abs() + 4.0 * ulp(maxabs);
                        obs.expect(ok, &format!("commute|distance:{ta}/{tb}"), || format!("{d0} before, {d1} after (factor {s}); {}", ctx()));
                    }
                }
            }
        }
    }
}
