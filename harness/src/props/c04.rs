//! C04 — Boolean operations compute the set-theoretic result.
use crate::conv::{to_geo, ulp, wkt, Xf};
use crate::engine::{guard, Obs, Property, Tier};
use crate::exact::C;
use crate::gen::{areal_scene_strategy, xf_strategy, ArealScene};
use crate::props::c05::flip_rings;
use crate::refgeom::cells::{line_pieces, trapezoids};
use crate::refgeom::measure::twice_area_ring;
use crate::refgeom::validity::in_relate_domain;
use crate::refgeom::{Loc, Located, Poly, G};
use geo::bool_ops::{unary_union, BooleanOps, OpType};
use geo::{Geometry, LineString, MultiLineString, MultiPolygon, Polygon};
use proptest::prelude::*;
use serde::{Deserialize, Serialize};
use serde_json::{json, Value};

#[derive(Clone, Debug, Serialize, Deserialize)]
pub struct Case {
    pub a: G,
    pub b: G,
    pub line: G,
    pub xf: Xf,
    /// ring direction flips (bit i = ring i)
    pub flips: u32,
    /// repeated-vertex variant: 0 none, 1 duplicate a vertex of A, 2 repeat A's closing vertex, 3 both, 4.. on B
    pub dup: u8,
    #[serde(skip)]
    pub trusted: bool,
}

pub struct C04;

fn polys_of(g: &G) -> Vec<Poly> {
    match g {
        G::Polygon(p) => vec![p.clone()],
        G::MultiPolygon(v) => v.clone(),
        _ => vec![],
    }
}

/// insert repeated vertices (same point set): bit 0 = repeat one vertex of one ring (any position, including
/// the first vertex, shells and holes), bit 1 = repeat the shell's closing vertex
fn dup_vertices(g: &G, mode: u8, sel: u32) -> G {
    let f = |p: &Poly| -> Poly {
        let mut q = p.clone();
        if q.ext.len() >= 4 {
            if mode & 1 == 1 {
                let nr = 1 + q.holes.len();
                let ri = (sel as usize >> 8) % nr;
                let ring = if ri == 0 { &mut q.ext } else { &mut q.holes[ri - 1] };
                if ring.len() >= 4 {
                    let i = sel as usize % (ring.len() - 1);
                    let v = ring[i];
                    ring.insert(i, v);
                }
            }
            if mode & 2 == 2 {
                let v = *q.ext.last().unwrap();
                q.ext.push(v);
            }
        }
        q
    };
    match g {
        G::Polygon(p) => G::Polygon(f(p)),
        G::MultiPolygon(v) => G::MultiPolygon(v.iter().map(f).collect()),
        _ => g.clone(),
    }
}

fn to_mp(g: &Geometry<f64>) -> MultiPolygon<f64> {
    match g {
        Geometry::Polygon(p) => MultiPolygon::new(vec![p.clone()]),
        Geometry::MultiPolygon(m) => m.clone(),
        _ => MultiPolygon::new(vec![]),
    }
}

fn ring_area2(r: &LineString<f64>) -> f64 {
    if r.0.is_empty() {
        return 0.0;
    }
    let o = r.0[0];
    r.0.windows(2).map(|w| (w[0].x - o.x) * (w[1].y - o.y) - (w[1].x - o.x) * (w[0].y - o.y)).sum()
}
fn mp_area(m: &MultiPolygon<f64>) -> f64 {
    m.0.iter().map(|p| (ring_area2(p.exterior()).abs() - p.interiors().iter().map(|h| ring_area2(h).abs()).sum::<f64>()) * 0.5).sum()
}
fn in_ring(r: &LineString<f64>, x: f64, y: f64) -> bool {
    let mut inside = false;
    for w in r.0.windows(2) {
        let (a, b) = (w[0], w[1]);
        if (a.y > y) != (b.y > y) {
            let xi = a.x + (y - a.y) / (b.y - a.y) * (b.x - a.x);
            if xi > x {
                inside = !inside;
            }
        }
    }
    inside
}
fn in_mp(m: &MultiPolygon<f64>, x: f64, y: f64) -> bool {
    m.0.iter().any(|p| in_ring(p.exterior(), x, y) && !p.interiors().iter().any(|h| in_ring(h, x, y)))
}
/// A hole of a result polygon that lies outside that polygon's own exterior (bound to the wrong shell).
/// Returns the class of the first such hole: whether its least vertex (x, then y) is a pinch (visited twice).
fn misbound_hole(m: &MultiPolygon<f64>, tol: f64) -> Option<&'static str> {
    for p in &m.0 {
        let ext: Vec<((f64, f64), (f64, f64))> = p.exterior().0.windows(2).map(|w| ((w[0].x, w[0].y), (w[1].x, w[1].y))).collect();
        for h in p.interiors() {
            let n = h.0.len().saturating_sub(1);
            let outside = h.0[..n].iter().any(|q| {
                !in_ring(p.exterior(), q.x, q.y) && ext.iter().map(|sg| pt_seg((q.x, q.y), sg.0, sg.1)).fold(f64::INFINITY, f64::min) > tol
            });
            if outside {
                let least = h.0[..n].iter().fold(h.0[0], |m, q| if (q.x, q.y) < (m.x, m.y) { *q } else { m });
                // the vertex the overlay engine anchors the hole at lies on more ring segments of the result
                // than its own two incident edges: the hole touches itself, another hole or an island there
                let visits: usize = m.0.iter().flat_map(|p2| std::iter::once(p2.exterior()).chain(p2.interiors().iter()))
                    .map(|r| r.0.windows(2).filter(|w| pt_seg((least.x, least.y), (w[0].x, w[0].y), (w[1].x, w[1].y)) <= tol).count()).sum();
                if visits > 2 {
                    return Some("least-vertex-is-a-touch-point");
                }
                // ... or the first boundary point straight under that vertex (the engine looks for the nearest segment under the
                // anchor to find the parent shape) is one: three or more ring segments of the result meet there
                let mut under: Vec<f64> = vec![];
                for r in m.0.iter().flat_map(|p2| std::iter::once(p2.exterior()).chain(p2.interiors().iter())) {
                    for w in r.0.windows(2) {
                        let (a, b) = ((w[0].x, w[0].y), (w[1].x, w[1].y));
                        // (like the engine's scan, only segments that extend to the right of the anchor's abscissa count)
                        if pt_seg((least.x, least.y), a, b) <= tol || least.x < a.0.min(b.0) - tol || least.x >= a.0.max(b.0) - tol {
                            continue;
                        }
                        // ordinate(s) of the segment on the vertical line through the anchor
                        let ys: Vec<f64> = if (b.0 - a.0).abs() <= tol { vec![a.1, b.1] } else { vec![a.1 + (b.1 - a.1) * (least.x - a.0) / (b.0 - a.0)] };
                        if let Some(y) = ys.into_iter().filter(|y| *y < least.y - tol).fold(None, |m: Option<f64>, y| Some(m.map_or(y, |v| v.max(y)))) {
                            under.push(y);
                        }
                    }
                }
                let top = under.iter().cloned().fold(f64::NEG_INFINITY, f64::max);
                let meeting = under.iter().filter(|y| (**y - top).abs() <= tol).count();
                return Some(if meeting >= 3 { "touch-point-straight-under-least-vertex" } else { "other" });
            }
        }
    }
    None
}
/// even-odd parity over every ring of the result: the covered region whichever shell each hole is bound to
fn in_mp_parity(m: &MultiPolygon<f64>, x: f64, y: f64) -> bool {
    m.0.iter().flat_map(|p| std::iter::once(p.exterior()).chain(p.interiors().iter())).filter(|r| in_ring(r, x, y)).count() % 2 == 1
}
/// Does the overlay ENGINE itself (i_overlay, called exactly the way geo calls it: rings as implicitly closed paths, same
/// rule and fill rule) group a hole under a shape whose first path does not contain it? Used only to attribute a
/// mis-grouped hole in geo's result: if the engine groups it the same way the defect is the engine's (known finding),
/// if the engine groups it right the re-packaging in geo is at fault (VIOLATION).
fn engine_misbinds(subj: &MultiPolygon<f64>, clip: Option<&MultiPolygon<f64>>, op: Option<OpType>, tol: f64) -> bool {
    use geo::algorithm::winding_order::{Winding, WindingOrder};
    use i_overlay::core::fill_rule::FillRule;
    use i_overlay::core::overlay_rule::OverlayRule;
    use i_overlay::float::overlay::FloatOverlay;
    use i_overlay::float::single::SingleFloatOverlay;
    // geo's ring_to_shape_path: drop the closing coordinate and every further trailing copy of the first one
    let path = |ls: &LineString<f64>| -> Vec<[f64; 2]> {
        if ls.0.is_empty() {
            return vec![];
        }
        let first = ls.0[0];
        let mut len = ls.0.len() - 1;
        while len > 1 && ls.0[len] == first && ls.0[len - 1] == first {
            len -= 1;
        }
        ls.0[..len].iter().map(|c| [c.x, c.y]).collect()
    };
    let rings = |m: &MultiPolygon<f64>| -> Vec<Vec<[f64; 2]>> { m.0.iter().flat_map(|p| std::iter::once(p.exterior()).chain(p.interiors().iter())).map(|r| path(r)).collect() };
    let subject = rings(subj);
    let shapes: Vec<Vec<Vec<[f64; 2]>>> = match (clip, op) {
        (Some(c), Some(op)) => {
            let rule = match op { OpType::Intersection => OverlayRule::Intersect, OpType::Union => OverlayRule::Union, OpType::Difference => OverlayRule::Difference, OpType::Xor => OverlayRule::Xor };
            subject.overlay(&rings(c), rule, FillRule::EvenOdd)
        }
        _ => {
            // unary_union: fill rule from the first ring that has a winding
            let first = subj.0.iter().flat_map(|p| std::iter::once(p.exterior()).chain(p.interiors().iter())).find_map(|r| r.winding_order());
            let fill = if first == Some(WindingOrder::Clockwise) { FillRule::Positive } else { FillRule::Negative };
            FloatOverlay::with_subj(&subject).overlay(OverlayRule::Subject, fill)
        }
    };
    for sh in &shapes {
        if sh.len() < 2 {
            continue;
        }
        let close = |p: &Vec<[f64; 2]>| -> LineString<f64> { let mut v: Vec<geo::Coord<f64>> = p.iter().map(|q| geo::Coord { x: q[0], y: q[1] }).collect(); if let Some(f) = v.first().copied() { v.push(f); } LineString::new(v) };
        let ext = close(&sh[0]);
        let esegs: Vec<((f64, f64), (f64, f64))> = ext.0.windows(2).map(|w| ((w[0].x, w[0].y), (w[1].x, w[1].y))).collect();
        for h in &sh[1..] {
            if h.iter().any(|q| !in_ring(&ext, q[0], q[1]) && esegs.iter().map(|sg| pt_seg((q[0], q[1]), sg.0, sg.1)).fold(f64::INFINITY, f64::min) > tol) {
                return true;
            }
        }
    }
    false
}
fn pt_seg(p: (f64, f64), a: (f64, f64), b: (f64, f64)) -> f64 {
    let (dx, dy) = (b.0 - a.0, b.1 - a.1);
    let l2 = dx * dx + dy * dy;
    let t = if l2 == 0.0 { 0.0 } else { (((p.0 - a.0) * dx + (p.1 - a.1) * dy) / l2).clamp(0.0, 1.0) };
    ((p.0 - a.0 - t * dx).powi(2) + (p.1 - a.1 - t * dy).powi(2)).sqrt()
}

impl Property for C04 {
    type Case = Case;
    const ID: &'static str = "C04";
    fn strategy(_tier: Tier) -> BoxedStrategy<Case> {
        (areal_scene_strategy(), xf_strategy(), any::<u32>(), 0u8..8)
            .prop_map(|(ArealScene { a, b, line }, xf, flips, dup)| Case { a, b, line, xf, flips, dup, trusted: true })
            .boxed()
    }
    fn quota(tier: Tier) -> u64 {
        tier.pick(400_000, 8_000_000)
    }
    fn rule() -> String {
        "Pairs of valid Polygons / MultiPolygons on one board (polyomino outlines with holes and pinch vertices, hulls, star rings, \
         convex shells with a touching triangular hole; B derived from / biased to A: identical, complement, inside A's holes, \
         sharing edges and vertices, nested, empty), every ring's direction chosen independently, optional repeated vertices \
         including a repeated closing vertex, under exact similarities; simple line work biased to A's boundary for clip. Oracle: \
         exact trapezoid decomposition of the joint arrangement (exact area and exact membership of every cell). Checked for \
         intersection / union / difference / xor (and boolean_op): membership of every cell sample farther than the snapping \
         tolerance from the input boundaries, result area vs exact area (perimeter x tolerance), the three area identities on \
         geo's own outputs, exteriors CCW / holes CW / rings closed, unary_union of the consistently wound members = exact union, \
         clip(line, invert): pieces lie on the line work and on the allowed side, lengths bracketed by the exact \
         interior / boundary / exterior lengths. Non-trivial = the boundaries of A and B intersect."
            .into()
    }
    fn assumptions() -> Vec<String> {
        vec!["tolerance delta = 2^-20 x extent + 8 ulp(max|coord|): far above i_overlay's 2^-29 x extent fixed-point grid and never finer than f64 resolution at the offset".into()]
    }
    fn must_hit() -> Vec<&'static str> {
        vec!["boundaries-intersect", "shared-edge", "nested", "identical", "empty-operand", "has-hole", "dup:closing-vertex", "dup:inner-vertex", "clip:along-boundary", "cw-shell", "unary_union:empty-member-first"]
    }
    fn show(c: &Case) -> Value {
        json!({"a": wkt(&c.a), "b": wkt(&c.b), "line": wkt(&c.line), "xf": c.xf, "flips": c.flips, "dup": c.dup})
    }
    fn check(c: &Case, obs: &mut Obs) {
        let areal = |g: &G| matches!(g, G::Polygon(_) | G::MultiPolygon(_));
        let linear = |g: &G| matches!(g, G::Line(..) | G::LineString(_) | G::MultiLineString(_));
        if !areal(&c.a) || !areal(&c.b) || !linear(&c.line) || (!c.trusted && !(in_relate_domain(&c.a) && in_relate_domain(&c.b) && in_relate_domain(&c.line))) {
            obs.label("skipped:out-of-domain");
            return;
        }
        // representation variants: ring directions and repeated vertices
        let a_in = dup_vertices(&flip_rings(&c.a, c.flips), c.dup & 3, c.flips >> 8);
        let b_in = dup_vertices(&flip_rings(&c.b, c.flips >> 16), if c.dup >= 4 { c.dup & 3 } else { 0 }, c.flips >> 12);
        if c.dup & 2 == 2 {
            obs.label("dup:closing-vertex");
        }
        if c.dup & 1 == 1 {
            obs.label("dup:inner-vertex");
        }
        let (ga, gb) = (to_mp(&to_geo(&a_in, &c.xf)), to_mp(&to_geo(&b_in, &c.xf)));
        let (pa, pb) = (polys_of(&c.a), polys_of(&c.b));
        if pa.iter().chain(pb.iter()).any(|p| !p.holes.is_empty()) {
            obs.label("has-hole");
        }
        if polys_of(&a_in).iter().any(|p| twice_area_ring(&p.ext) < 0) {
            obs.label("cw-shell");
        }
        if c.a.is_empty() || c.b.is_empty() {
            obs.label("empty-operand");
        }
        let m = crate::refgeom::de9im::de9im(&c.a, &c.b);
        if m.get(Loc::B, Loc::B) >= 0 {
            obs.label("boundaries-intersect");
            obs.nontrivial();
        }
        if m.get(Loc::B, Loc::B) >= 1 {
            obs.label("shared-edge");
        }
        if !c.a.is_empty() && c.a == c.b {
            obs.label("identical");
        }
        if !c.a.is_empty() && !c.b.is_empty() && (m.within() || m.transpose().within()) {
            obs.label("nested");
        }
        // exact cells
        let mut segs: Vec<(C, C)> = c.a.segments();
        segs.extend(c.b.segments());
        segs.retain(|s| s.0 != s.1);
        let (la, lb) = (Located::new(&c.a), Located::new(&c.b));
        let traps = trapezoids(&segs);
        let cells: Vec<(f64, f64, f64, bool, bool)> = traps
            .iter()
            .map(|t| {
                let (x, y) = t.sample.to_f64();
                (x, y, t.area.to_f64(), la.locate(t.sample) == Loc::I, lb.locate(t.sample) == Loc::I)
            })
            .collect();
        let s = c.xf.scale();
        let coords: Vec<C> = c.a.coords().into_iter().chain(c.b.coords()).collect();
        if coords.is_empty() {
            // both empty: every op must be empty
            for op in [OpType::Intersection, OpType::Union, OpType::Difference, OpType::Xor] {
                let r = guard(std::panic::AssertUnwindSafe(|| ga.boolean_op(&gb, op)));
                match r {
                    Ok(r) => obs.expect(mp_area(&r) == 0.0, &format!("boolean_op:{:?}|nonempty-from-empty", op), || format!("{:?}", r)),
                    Err(p) => obs.fail(format!("boolean_op:{:?}|panic|{}", op, p.site()), format!("{}", p)),
                }
            }
            return;
        }
        let ext_l = coords.iter().map(|q| q.0.abs().max(q.1.abs())).max().unwrap() as f64 + 1.0;
        let maxabs = c.xf.max_abs(&c.a).max(c.xf.max_abs(&c.b)).max(s);
        let delta_l = 2f64.powi(-20) * ext_l + 8.0 * ulp(maxabs) / s;
        let perim_l: f64 = segs.iter().map(|sg| (((sg.1 .0 - sg.0 .0).pow(2) + (sg.1 .1 - sg.0 .1).pow(2)) as f64).sqrt()).sum();
        let area_tol = (perim_l * delta_l + 1e-12 * ext_l * ext_l) * s * s;
        let ctx = || format!("A={} B={} xf={:?} flips={:#x} dup={}", wkt(&a_in), wkt(&b_in), c.xf, c.flips, c.dup);
        let segs_f: Vec<((f64, f64), (f64, f64))> = segs.iter().map(|sg| ((sg.0 .0 as f64, sg.0 .1 as f64), (sg.1 .0 as f64, sg.1 .1 as f64))).collect();
        let robust: Vec<bool> = cells.iter().map(|cl| segs_f.iter().all(|sg| pt_seg((cl.0, cl.1), sg.0, sg.1) > delta_l)).collect();

        let ops: [(&str, OpType, fn(bool, bool) -> bool); 4] = [
            ("intersection", OpType::Intersection, |x, y| x && y),
            ("union", OpType::Union, |x, y| x || y),
            ("difference", OpType::Difference, |x, y| x && !y),
            ("xor", OpType::Xor, |x, y| x != y),
        ];
        let mut areas = [0.0f64; 4];
        let mut have = [false; 4];
        for (i, (name, op, f)) in ops.iter().enumerate() {
            let r = guard(std::panic::AssertUnwindSafe(|| match i {
                0 => ga.intersection(&gb),
                1 => ga.union(&gb),
                2 => ga.difference(&gb),
                _ => ga.xor(&gb),
            }));
            let r = match r {
                Ok(r) => r,
                Err(p) => {
                    obs.fail(format!("{name}|panic|{}", p.site()), format!("{} {}", p, ctx()));
                    continue;
                }
            };
            // boolean_op gives the same
            if let Ok(r2) = guard(std::panic::AssertUnwindSafe(|| ga.boolean_op(&gb, *op))) {
                obs.expect(r2 == r, &format!("{name}|boolean_op-differs"), || ctx());
            }
            // a Polygon as receiver / as argument goes through `impl BooleanOps for Polygon` and must give the same
            let single = |m: &MultiPolygon<f64>| if m.0.len() == 1 { Some(m.0[0].clone()) } else { None };
            if let Some(pa1) = single(&ga) {
                if let Ok(r3) = guard(std::panic::AssertUnwindSafe(|| pa1.boolean_op(&gb, *op))) {
                    obs.label("receiver:Polygon");
                    obs.expect(r3 == r, &format!("{name}|Polygon-receiver-differs"), || ctx());
                }
                if let Some(pb1) = single(&gb) {
                    if let Ok(r4) = guard(std::panic::AssertUnwindSafe(|| match i { 0 => pa1.intersection(&pb1), 1 => pa1.union(&pb1), 2 => pa1.difference(&pb1), _ => pa1.xor(&pb1) })) {
                        obs.expect(r4 == r, &format!("{name}|Polygon/Polygon-differs"), || ctx());
                    }
                }
            }
            if let Some(pb1) = single(&gb) {
                if let Ok(r5) = guard(std::panic::AssertUnwindSafe(|| ga.boolean_op(&pb1, *op))) {
                    obs.expect(r5 == r, &format!("{name}|Polygon-argument-differs"), || ctx());
                }
            }
            // (0) every hole lies within its own exterior; with a mis-bound hole the per-polygon membership
            //     failures are consequences of that one root cause, so membership is then judged by
            //     even-odd parity over all rings (the covered region whichever shell owns each hole)
            let misbound = misbound_hole(&r, 4.0 * delta_l * s);
            if let Some(class) = misbound {
                // whose grouping is it? (the geometric class is kept in the message)
                let blame = match guard(std::panic::AssertUnwindSafe(|| engine_misbinds(&ga, Some(&gb), Some(*op), 4.0 * delta_l * s))) {
                    Ok(true) => "engine-groups-it-so",
                    Ok(false) => "engine-groups-it-right",
                    Err(_) => "engine-probe-panicked",
                };
                obs.fail(format!("{name}|hole-outside-its-shell|{blame}"), format!("({class}) result {:?}; {}", r, ctx()));
            }
            // (1) membership of robust cell samples
            let mut bad = None;
            for (cl, rb) in cells.iter().zip(robust.iter()) {
                if !*rb {
                    continue;
                }
                let q = c.xf.apply_f(cl.0, cl.1);
                let got = if misbound.is_some() { in_mp_parity(&r, q.x, q.y) } else { in_mp(&r, q.x, q.y) };
                let want = f(cl.3, cl.4);
                obs.cmp();
                if got != want {
                    bad = Some((cl.0, cl.1, got, want));
                    break;
                }
            }
            if let Some((x, y, got, want)) = bad {
                obs.fail(format!("{name}|membership"), format!("point ({x}, {y}) (lattice frame): in result = {got}, should be {want}; result {:?}; {}", r, ctx()));
            }
            // (2) area
            let want_area: f64 = cells.iter().filter(|cl| f(cl.3, cl.4)).map(|cl| cl.2).sum::<f64>() * s * s;
            let got_area = mp_area(&r);
            areas[i] = got_area;
            have[i] = true;
            obs.expect((got_area - want_area).abs() <= area_tol, &format!("{name}|area"), || format!("got {got_area} want {want_area} (tol {area_tol}); result {:?}; {}", r, ctx()));
            // (3) winding and closure of the result
            for p in &r.0 {
                let e = ring_area2(p.exterior());
                obs.expect(p.exterior().is_closed() && p.interiors().iter().all(|h| h.is_closed()), &format!("{name}|ring-not-closed"), || ctx());
                obs.expect(e > 0.0 || e.abs() <= area_tol, &format!("{name}|exterior-not-ccw"), || format!("exterior {:?} has signed area {}; {}", p.exterior().0, e * 0.5, ctx()));
                for h in p.interiors() {
                    let ha = ring_area2(h);
                    obs.expect(ha < 0.0 || ha.abs() <= area_tol, &format!("{name}|hole-not-cw"), || format!("hole {:?} has signed area {}; {}", h.0, ha * 0.5, ctx()));
                }
            }
        }
        // area identities on geo's own outputs
        if have.iter().all(|h| *h) {
            let (aa, ab) = (mp_area(&ga), mp_area(&gb));
            let t = 3.0 * area_tol;
            obs.expect((areas[0] + areas[1] - aa - ab).abs() <= t, "identity|inter+union=a+b", || format!("{} + {} vs {} + {}; {}", areas[0], areas[1], aa, ab, ctx()));
            obs.expect((areas[2] - (aa - areas[0])).abs() <= t, "identity|diff=a-inter", || format!("{} vs {} - {}; {}", areas[2], aa, areas[0], ctx()));
            obs.expect((areas[3] - (areas[1] - areas[0])).abs() <= t, "identity|xor=union-inter", || format!("{} vs {} - {}; {}", areas[3], areas[1], areas[0], ctx()));
        }
        // (4) unary_union of the consistently wound members of A and B
        {
            let rev = c.flips & 1 == 1;
            let members: Vec<Polygon<f64>> = pa
                .iter()
                .chain(pb.iter())
                .filter(|p| !p.ext.is_empty())
                .map(|p| {
                    // exterior counter-clockwise, holes clockwise (or everything reversed)
                    let orient = |r: &Vec<C>, ccw: bool| -> Vec<C> {
                        let mut r = r.clone();
                        if (twice_area_ring(&r) > 0) != (ccw != rev) {
                            r.reverse();
                        }
                        r
                    };
                    let q = Poly { ext: orient(&p.ext, true), holes: p.holes.iter().map(|h| orient(h, false)).collect() };
                    // a reflecting similarity would reverse every ring consistently: still consistently wound
                    match to_geo(&G::Polygon(q), &c.xf) {
                        Geometry::Polygon(p) => p,
                        _ => unreachable!(),
                    }
                })
                .collect();
            // an empty member (no rings, hence no winding of its own) may sit anywhere, also first
            let mut members = members;
            match (c.flips >> 4) & 7 {
                0 => { members.insert(0, Polygon::new(LineString::new(vec![]), vec![])); obs.label("unary_union:empty-member-first"); }
                1 => { members.push(Polygon::new(LineString::new(vec![]), vec![])); }
                _ => {}
            }
            if !members.is_empty() {
                match guard(std::panic::AssertUnwindSafe(|| unary_union(members.iter()))) {
                    Ok(u) => {
                        let want_area: f64 = cells.iter().filter(|cl| cl.3 || cl.4).map(|cl| cl.2).sum::<f64>() * s * s;
                        let got = mp_area(&u);
                        obs.expect((got - want_area).abs() <= area_tol, "unary_union|area", || format!("got {got} want {want_area}; members {:?}; {}", members, ctx()));
                        let misbound = misbound_hole(&u, 4.0 * delta_l * s);
                        if let Some(class) = misbound {
                            let all = MultiPolygon::new(members.clone());
                            let blame = match guard(std::panic::AssertUnwindSafe(|| engine_misbinds(&all, None, None, 4.0 * delta_l * s))) {
                                Ok(true) => "engine-groups-it-so",
                                Ok(false) => "engine-groups-it-right",
                                Err(_) => "engine-probe-panicked",
                            };
                            obs.fail(format!("unary_union|hole-outside-its-shell|{blame}"), format!("({class}) result {:?}; {}", u, ctx()));
                        }
                        // winding and closure of the result, as for the binary operations
                        for p in &u.0 {
                            let e = ring_area2(p.exterior());
                            obs.expect(p.exterior().is_closed() && p.interiors().iter().all(|h| h.is_closed()), "unary_union|ring-not-closed", || ctx());
                            obs.expect(e > 0.0 || e.abs() <= area_tol, "unary_union|exterior-not-ccw", || format!("exterior {:?} has signed area {}; {}", p.exterior().0, e * 0.5, ctx()));
                            for h in p.interiors() {
                                let ha = ring_area2(h);
                                obs.expect(ha < 0.0 || ha.abs() <= area_tol, "unary_union|hole-not-cw", || format!("hole {:?} has signed area {}; {}", h.0, ha * 0.5, ctx()));
                            }
                        }
                        // the same members grouped into MultiPolygon items (same rings in the same order)
                        if members.len() >= 2 {
                            let cut = 1 + (c.flips as usize >> 7) % (members.len() - 1);
                            let groups = [MultiPolygon::new(members[..cut].to_vec()), MultiPolygon::new(members[cut..].to_vec())];
                            if let Ok(u2) = guard(std::panic::AssertUnwindSafe(|| unary_union(groups.iter()))) {
                                obs.expect(u2 == u, "unary_union|MultiPolygon-items-differ", || format!("{:?} vs {:?}; {}", u2, u, ctx()));
                            }
                        }
                        let mut bad = None;
                        for (cl, rb) in cells.iter().zip(robust.iter()) {
                            if !*rb {
                                continue;
                            }
                            let q = c.xf.apply_f(cl.0, cl.1);
                            obs.cmp();
                            let got = if misbound.is_some() { in_mp_parity(&u, q.x, q.y) } else { in_mp(&u, q.x, q.y) };
                            if got != (cl.3 || cl.4) {
                                bad = Some((cl.0, cl.1));
                                break;
                            }
                        }
                        if let Some(b) = bad {
                            obs.fail("unary_union|membership", format!("point {:?} (lattice frame); result {:?}; {}", b, u, ctx()));
                        }
                        if have[1] {
                            obs.expect((got - areas[1]).abs() <= 2.0 * area_tol, "unary_union|differs-from-pairwise-union", || format!("{got} vs {}; {}", areas[1], ctx()));
                        }
                    }
                    Err(p) => obs.fail(format!("unary_union|panic|{}", p.site()), format!("{} {}", p, ctx())),
                }
            }
        }
        // (5) clip
        if !c.a.is_empty() && !c.line.is_empty() {
            let lines: Vec<Vec<C>> = match &c.line {
                G::Line(p, q) => vec![vec![*p, *q]],
                G::LineString(v) => vec![v.clone()],
                G::MultiLineString(v) => v.clone(),
                _ => vec![],
            };
            let gl = MultiLineString::new(lines.iter().map(|l| LineString::new(l.iter().map(|p| c.xf.apply(*p)).collect())).collect());
            let pieces = line_pieces(&lines, &c.a);
            let (mut len_i, mut len_b, mut len_e) = (0.0, 0.0, 0.0);
            for p in &pieces {
                match p.2 {
                    Loc::I => len_i += p.3,
                    Loc::B => len_b += p.3,
                    Loc::E => len_e += p.3,
                }
            }
            if len_b > 0.0 {
                obs.label("clip:along-boundary");
            }
            let total = len_i + len_b + len_e;
            let ltol = (1e-9 * total + 4.0 * delta_l * (pieces.len() as f64 + 1.0)) * s;
            let asegs: Vec<((f64, f64), (f64, f64))> = c.a.segments().iter().map(|sg| ((sg.0 .0 as f64, sg.0 .1 as f64), (sg.1 .0 as f64, sg.1 .1 as f64))).collect();
            let lsegs: Vec<((f64, f64), (f64, f64))> = lines.iter().flat_map(|l| l.windows(2).map(|w| ((w[0].0 as f64, w[0].1 as f64), (w[1].0 as f64, w[1].1 as f64))).collect::<Vec<_>>()).collect();
            let mut lens = [0.0f64; 2];
            let mut okc = [false; 2];
            for (k, invert) in [false, true].iter().enumerate() {
                let name = if *invert { "clip(invert)" } else { "clip" };
                match guard(std::panic::AssertUnwindSafe(|| ga.clip(&gl, *invert))) {
                    Ok(out) => {
                        okc[k] = true;
                        for ls in &out.0 {
                            for w in ls.0.windows(2) {
                                let (p0, p1) = (c.xf.invert_f(w[0]), c.xf.invert_f(w[1]));
                                lens[k] += ((w[1].x - w[0].x).powi(2) + (w[1].y - w[0].y).powi(2)).sqrt();
                                for q in [p0, p1] {
                                    let d = lsegs.iter().map(|sg| pt_seg(q, sg.0, sg.1)).fold(f64::INFINITY, f64::min);
                                    obs.expect(d <= 4.0 * delta_l, &format!("{name}|vertex-off-the-line"), || format!("{:?} is {d} from the line work; out {:?}; line {}; {}", q, out, wkt(&c.line), ctx()));
                                }
                                let mid = ((p0.0 + p1.0) * 0.5, (p0.1 + p1.1) * 0.5);
                                let db = asegs.iter().map(|sg| pt_seg(mid, sg.0, sg.1)).fold(f64::INFINITY, f64::min);
                                if db > 4.0 * delta_l {
                                    // clearly inside or outside: exact location of the (dyadic) midpoint is not needed
                                    let inside = polys_of(&c.a).iter().any(|po| {
                                        let ring = |r: &Vec<C>| LineString::new(r.iter().map(|q| geo::Coord { x: q.0 as f64, y: q.1 as f64 }).collect());
                                        in_ring(&ring(&po.ext), mid.0, mid.1) && !po.holes.iter().any(|h| in_ring(&ring(h), mid.0, mid.1))
                                    });
                                    obs.expect(inside != *invert, &format!("{name}|piece-on-the-wrong-side"), || format!("piece {:?}-{:?} (lattice frame) inside={inside}; line {}; {}", p0, p1, wkt(&c.line), ctx()));
                                }
                            }
                        }
                    }
                    Err(p) => obs.fail(format!("{name}|panic|{}", p.site()), format!("{} line {} {}", p, wkt(&c.line), ctx())),
                }
            }
            if okc[0] && okc[1] {
                let (li, lo) = (lens[0], lens[1]);
                obs.expect(li >= (len_i + len_b) * s - ltol && li <= (len_i + len_b) * s + ltol, "clip|inside-length", || format!("kept {li}, exact interior {} boundary {}; line {}; {}", len_i * s, len_b * s, wkt(&c.line), ctx()));
                obs.expect(lo >= len_e * s - ltol && lo <= len_e * s + ltol, "clip(invert)|outside-length", || format!("kept {lo}, exact exterior {} boundary {}; line {}; {}", len_e * s, len_b * s, wkt(&c.line), ctx()));
                obs.expect(li + lo >= total * s - ltol && li + lo <= total * s + ltol, "clip|total-length-not-conserved", || format!("{li} + {lo} vs {}; line {}; {}", total * s, wkt(&c.line), ctx()));
            }
        }
    }
}
