//! C18 — structural invariants of the geometry types survive every API history.
use crate::engine::{guard, Obs, Property, Tier};
use num_traits::ToPrimitive;
use geo::{Coord, CoordNum, Geometry, Line, LineString, Polygon, Rect, Triangle};
use proptest::prelude::*;
use serde::{Deserialize, Serialize};

type P = (i8, i8);

#[derive(Clone, Debug, Serialize, Deserialize)]
pub enum Edit {
    Push(P),
    Pop,
    Clear,
    Truncate(u8),
    Set(u8, P),
    SetFirst(P),
    SetLast(P),
    Reverse,
    Extend(Vec<P>),
    Insert(u8, P),
    Remove(u8),
}

#[derive(Clone, Debug, Serialize, Deserialize)]
pub enum Op {
    New { ext: Vec<P>, ints: Vec<Vec<P>> },
    ExteriorMut(Vec<Edit>),
    /// edits, then Err after `fail_after` edits (None = Ok)
    TryExteriorMut(Vec<Edit>, Option<u8>),
    InteriorsMut(u8, Vec<Edit>),
    TryInteriorsMut(u8, Vec<Edit>, Option<u8>),
    InteriorsPush(Vec<P>),
    IntoInnerNew,
    CloneReplace,
    CloseLineString(Vec<P>),
    RectNew(P, P),
    RectSetMin(P),
    RectSetMax(P),
    Convert(u8, Vec<P>),
}

#[derive(Clone, Debug, Serialize, Deserialize)]
pub struct Case {
    pub ops: Vec<Op>,
    /// scalar type: false = f64, true = i32
    pub int: bool,
}

pub struct C18;

fn apply_edit<T: Clone>(v: &mut Vec<T>, e: &Edit, mk: &dyn Fn(P) -> T) {
    match e {
        Edit::Push(p) => v.push(mk(*p)),
        Edit::Pop => {
            v.pop();
        }
        Edit::Clear => v.clear(),
        Edit::Truncate(n) => v.truncate(*n as usize % 8),
        Edit::Set(i, p) => {
            if !v.is_empty() {
                let k = *i as usize % v.len();
                v[k] = mk(*p);
            }
        }
        Edit::SetFirst(p) => {
            if let Some(f) = v.first_mut() {
                *f = mk(*p)
            }
        }
        Edit::SetLast(p) => {
            if let Some(f) = v.last_mut() {
                *f = mk(*p)
            }
        }
        Edit::Reverse => v.reverse(),
        Edit::Extend(ps) => v.extend(ps.iter().map(|p| mk(*p))),
        Edit::Insert(i, p) => {
            let k = *i as usize % (v.len() + 1);
            v.insert(k, mk(*p));
        }
        Edit::Remove(i) => {
            if !v.is_empty() {
                let k = *i as usize % v.len();
                v.remove(k);
            }
        }
    }
}

/// the documented closing rule, applied to the model
fn close_model<T: PartialEq + Clone>(v: &mut Vec<T>) {
    if !v.is_empty() && v.first() != v.last() {
        let f = v[0].clone();
        v.push(f);
    }
}

fn edit_strategy() -> impl Strategy<Value = Edit> {
    let p = || (-3i8..4, -3i8..4);
    prop_oneof![
        3 => p().prop_map(Edit::Push),
        2 => Just(Edit::Pop),
        1 => Just(Edit::Clear),
        1 => any::<u8>().prop_map(Edit::Truncate),
        2 => (any::<u8>(), p()).prop_map(|(i, q)| Edit::Set(i, q)),
        2 => p().prop_map(Edit::SetFirst),
        2 => p().prop_map(Edit::SetLast),
        1 => Just(Edit::Reverse),
        1 => proptest::collection::vec(p(), 0..4).prop_map(Edit::Extend),
        1 => (any::<u8>(), p()).prop_map(|(i, q)| Edit::Insert(i, q)),
        1 => any::<u8>().prop_map(Edit::Remove),
    ]
}

fn ring_strategy() -> impl Strategy<Value = Vec<P>> {
    proptest::collection::vec((-3i8..4, -3i8..4), 0..7)
}

fn op_strategy() -> impl Strategy<Value = Op> {
    let edits = || proptest::collection::vec(edit_strategy(), 0..6);
    let p = || (-3i8..4, -3i8..4);
    prop_oneof![
        2 => (ring_strategy(), proptest::collection::vec(ring_strategy(), 0..3)).prop_map(|(ext, ints)| Op::New { ext, ints }),
        3 => edits().prop_map(Op::ExteriorMut),
        4 => (edits(), proptest::option::weighted(0.7, 0u8..7)).prop_map(|(e, f)| Op::TryExteriorMut(e, f)),
        3 => (any::<u8>(), edits()).prop_map(|(w, e)| Op::InteriorsMut(w, e)),
        4 => (any::<u8>(), edits(), proptest::option::weighted(0.7, 0u8..7)).prop_map(|(w, e, f)| Op::TryInteriorsMut(w, e, f)),
        2 => ring_strategy().prop_map(Op::InteriorsPush),
        1 => Just(Op::IntoInnerNew),
        1 => Just(Op::CloneReplace),
        1 => ring_strategy().prop_map(Op::CloseLineString),
        2 => (p(), p()).prop_map(|(a, b)| Op::RectNew(a, b)),
        2 => p().prop_map(Op::RectSetMin),
        2 => p().prop_map(Op::RectSetMax),
        2 => (0u8..8, ring_strategy()).prop_map(|(k, r)| Op::Convert(k, r)),
    ]
}

struct Model<T: CoordNum> {
    ext: Vec<Coord<T>>,
    ints: Vec<Vec<Coord<T>>>,
    rmin: Coord<T>,
    rmax: Coord<T>,
}

fn run<T: CoordNum + std::fmt::Debug>(c: &Case, obs: &mut Obs, conv: &dyn Fn(i8) -> T, tname: &str) {
    let mk = |p: P| Coord { x: conv(p.0), y: conv(p.1) };
    let zero = mk((0, 0));
    let mut poly: Polygon<T> = Polygon::new(LineString::new(vec![]), vec![]);
    let mut m: Model<T> = Model { ext: vec![], ints: vec![], rmin: zero, rmax: zero };
    let mut rect: Rect<T> = Rect::new(zero, zero);
    let mut err_after_unclosing = false;
    for (i, op) in c.ops.iter().enumerate() {
        let opname;
        match op {
            Op::New { ext, ints } => {
                opname = "Polygon::new";
                m.ext = ext.iter().map(|p| mk(*p)).collect();
                m.ints = ints.iter().map(|r| r.iter().map(|p| mk(*p)).collect()).collect();
                poly = Polygon::new(LineString::new(m.ext.clone()), m.ints.iter().map(|r| LineString::new(r.clone())).collect());
                close_model(&mut m.ext);
                m.ints.iter_mut().for_each(close_model);
            }
            Op::ExteriorMut(edits) => {
                opname = "exterior_mut";
                poly.exterior_mut(|ls| edits.iter().for_each(|e| apply_edit(&mut ls.0, e, &mk)));
                edits.iter().for_each(|e| apply_edit(&mut m.ext, e, &mk));
                close_model(&mut m.ext);
            }
            Op::TryExteriorMut(edits, fail) => {
                opname = "try_exterior_mut";
                let n = fail.map(|k| (k as usize).min(edits.len()));
                let r: Result<(), usize> = poly.try_exterior_mut(|ls| {
                    for (k, e) in edits.iter().enumerate() {
                        if Some(k) == n {
                            return Err(k);
                        }
                        apply_edit(&mut ls.0, e, &mk);
                    }
                    if n == Some(edits.len()) {
                        return Err(edits.len());
                    }
                    Ok(())
                });
                let applied = n.unwrap_or(edits.len());
                edits[..applied].iter().for_each(|e| apply_edit(&mut m.ext, e, &mk));
                if n.is_some() && !m.ext.is_empty() && m.ext.first() != m.ext.last() {
                    err_after_unclosing = true;
                }
                close_model(&mut m.ext);
                obs.cmp();
                if r != n.map_or(Ok(()), Err) {
                    obs.fail(format!("{tname}|try_exterior_mut|result-not-passed-through"), format!("op {i}: got {:?}", r));
                }
            }
            Op::InteriorsMut(w, edits) => {
                opname = "interiors_mut";
                if !m.ints.is_empty() {
                    let k = *w as usize % m.ints.len();
                    poly.interiors_mut(|ints| edits.iter().for_each(|e| apply_edit(&mut ints[k].0, e, &mk)));
                    edits.iter().for_each(|e| apply_edit(&mut m.ints[k], e, &mk));
                    close_model(&mut m.ints[k]);
                } else {
                    poly.interiors_mut(|_| {});
                }
            }
            Op::TryInteriorsMut(w, edits, fail) => {
                opname = "try_interiors_mut";
                let n = fail.map(|k| (k as usize).min(edits.len()));
                if !m.ints.is_empty() {
                    let k = *w as usize % m.ints.len();
                    let r: Result<(), usize> = poly.try_interiors_mut(|ints| {
                        for (j, e) in edits.iter().enumerate() {
                            if Some(j) == n {
                                return Err(j);
                            }
                            apply_edit(&mut ints[k].0, e, &mk);
                        }
                        if n == Some(edits.len()) {
                            return Err(edits.len());
                        }
                        Ok(())
                    });
                    let applied = n.unwrap_or(edits.len());
                    edits[..applied].iter().for_each(|e| apply_edit(&mut m.ints[k], e, &mk));
                    if n.is_some() && !m.ints[k].is_empty() && m.ints[k].first() != m.ints[k].last() {
                        err_after_unclosing = true;
                    }
                    close_model(&mut m.ints[k]);
                    obs.cmp();
                    if r != n.map_or(Ok(()), Err) {
                        obs.fail(format!("{tname}|try_interiors_mut|result-not-passed-through"), format!("op {i}: got {:?}", r));
                    }
                } else {
                    let r: Result<(), usize> = poly.try_interiors_mut(|_| if n.is_some() { Err(0) } else { Ok(()) });
                    obs.cmp();
                    if r.is_err() != n.is_some() {
                        obs.fail(format!("{tname}|try_interiors_mut|result-not-passed-through"), format!("op {i}: got {:?}", r));
                    }
                }
            }
            Op::InteriorsPush(r) => {
                opname = "interiors_push";
                let v: Vec<Coord<T>> = r.iter().map(|p| mk(*p)).collect();
                poly.interiors_push(LineString::new(v.clone()));
                let mut v = v;
                close_model(&mut v);
                m.ints.push(v);
            }
            Op::IntoInnerNew => {
                opname = "into_inner+new";
                let (e, is) = poly.clone().into_inner();
                poly = Polygon::new(e, is);
            }
            Op::CloneReplace => {
                opname = "clone";
                poly = poly.clone();
            }
            Op::CloseLineString(r) => {
                opname = "LineString::close";
                let v: Vec<Coord<T>> = r.iter().map(|p| mk(*p)).collect();
                let mut ls = LineString::new(v.clone());
                ls.close();
                let mut mv = v;
                close_model(&mut mv);
                obs.cmp();
                if ls.0 != mv || !ls.is_closed() {
                    obs.fail(format!("{tname}|LineString::close|wrong-result"), format!("op {i}: {:?} -> {:?}", r, ls.0));
                }
                // idempotent
                let before = ls.clone();
                ls.close();
                obs.cmp();
                if ls != before {
                    obs.fail(format!("{tname}|LineString::close|not-idempotent"), format!("op {i}: {:?}", r));
                }
            }
            Op::RectNew(a, b) => {
                opname = "Rect::new";
                let (ca, cb) = (mk(*a), mk(*b));
                rect = Rect::new(ca, cb);
                let lo = |x: T, y: T| if x < y { x } else { y };
                let hi = |x: T, y: T| if x < y { y } else { x };
                m.rmin = Coord { x: lo(ca.x, cb.x), y: lo(ca.y, cb.y) };
                m.rmax = Coord { x: hi(ca.x, cb.x), y: hi(ca.y, cb.y) };
                if a.0 > b.0 || a.1 > b.1 {
                    obs.label("rect:corners-out-of-order");
                }
            }
            Op::RectSetMin(p) | Op::RectSetMax(p) => {
                let is_min = matches!(op, Op::RectSetMin(_));
                opname = if is_min { "Rect::set_min" } else { "Rect::set_max" };
                let cp = mk(*p);
                let ok = if is_min { cp.x <= m.rmax.x && cp.y <= m.rmax.y } else { cp.x >= m.rmin.x && cp.y >= m.rmin.y };
                let mut r2 = rect;
                let res = guard(std::panic::AssertUnwindSafe(|| {
                    if is_min {
                        r2.set_min(cp)
                    } else {
                        r2.set_max(cp)
                    }
                    r2
                }));
                obs.cmp();
                match (res, ok) {
                    (Ok(r), true) => {
                        rect = r;
                        if is_min {
                            m.rmin = cp
                        } else {
                            m.rmax = cp
                        }
                    }
                    (Err(_), false) => {
                        obs.label("rect:set-out-of-range-panics");
                        // documented panic; the value is discarded, `rect` keeps its previous state
                    }
                    (Ok(r), false) => {
                        // accepted out-of-range bound: invariant must still hold
                        if !(r.min().x <= r.max().x && r.min().y <= r.max().y) {
                            obs.fail(format!("{tname}|{opname}|min>max-accepted"), format!("op {i}: rect {:?}", r));
                        }
                        rect = r;
                        m.rmin = r.min();
                        m.rmax = r.max();
                    }
                    (Err(p), true) => obs.fail(format!("{tname}|{opname}|panic-on-valid-bound"), format!("op {i}: {}", p)),
                }
            }
            Op::Convert(kind, r) => {
                opname = "convert";
                let v: Vec<Coord<T>> = r.iter().map(|p| mk(*p)).collect();
                convert_checks(*kind, &v, &rect, &poly, obs, tname, i);
            }
        }
        // invariants after every op
        obs.cmp();
        if !poly.exterior().is_closed() {
            obs.fail(format!("{tname}|{opname}|exterior-not-closed"), format!("op {i} of {:?}: exterior {:?}", c.ops, poly.exterior().0));
        }
        for (k, r) in poly.interiors().iter().enumerate() {
            obs.cmp();
            if !r.is_closed() {
                obs.fail(format!("{tname}|{opname}|interior-not-closed"), format!("op {i} of {:?}: interior {k} {:?}", c.ops, r.0));
            }
        }
        obs.cmp();
        if poly.exterior().0 != m.ext || poly.interiors().len() != m.ints.len() || poly.interiors().iter().zip(m.ints.iter()).any(|(a, b)| a.0 != *b) {
            obs.fail(
                format!("{tname}|{opname}|contents-differ-from-model"),
                format!("op {i} of {:?}: polygon {:?} model ext {:?} ints {:?}", c.ops, poly, m.ext, m.ints),
            );
            // resynchronise so later ops are judged on their own
            m.ext = poly.exterior().0.clone();
            m.ints = poly.interiors().iter().map(|r| r.0.clone()).collect();
        }
        obs.cmp();
        if !(rect.min().x <= rect.max().x && rect.min().y <= rect.max().y) || rect.min() != m.rmin || rect.max() != m.rmax {
            obs.fail(format!("{tname}|{opname}|rect-invariant"), format!("op {i}: rect {:?} model {:?} {:?}", rect, m.rmin, m.rmax));
            m.rmin = rect.min();
            m.rmax = rect.max();
        }
    }
    if err_after_unclosing {
        obs.nontrivial();
        obs.label("err-exit-after-unclosing-edit");
    }
}

fn convert_checks<T: CoordNum + std::fmt::Debug>(kind: u8, v: &[Coord<T>], rect: &Rect<T>, poly: &Polygon<T>, obs: &mut Obs, tname: &str, i: usize) {
    let z = Coord { x: T::zero(), y: T::zero() };
    let g = |k: usize| v.get(k).copied().unwrap_or(z);
    match kind % 8 {
        0 => {
            // Rect -> Polygon: a closed ring through the four corners, walking around the rectangle
            // (the start corner is not documented: From<Rect> and to_polygon() start at different corners)
            let (lo, hi) = (rect.min(), rect.max());
            let corners = [Coord { x: hi.x, y: lo.y }, Coord { x: hi.x, y: hi.y }, Coord { x: lo.x, y: hi.y }, Coord { x: lo.x, y: lo.y }];
            for (name, p) in [("From", Polygon::<T>::from(*rect)), ("to_polygon", rect.to_polygon())] {
                let e = &p.exterior().0;
                let mut ok = e.len() == 5 && e[0] == e[4] && p.interiors().is_empty();
                if ok {
                    // every corner appears as often as in the corner list, consecutive ring vertices share x or y
                    for c in corners.iter() {
                        let n_want = corners.iter().filter(|d| *d == c).count();
                        let n_got = e[..4].iter().filter(|d| *d == c).count();
                        ok &= n_want == n_got;
                    }
                    ok &= (0..4).all(|k| e[k].x == e[k + 1].x || e[k].y == e[k + 1].y);
                }
                obs.cmp();
                if !ok {
                    obs.fail(format!("{tname}|Rect->Polygon({name})|coords"), format!("op {i}: {:?} -> {:?}", rect, p));
                }
            }
            let back: Result<Rect<T>, _> = Geometry::from(*rect).try_into();
            obs.cmp();
            if back.ok() != Some(*rect) {
                obs.fail(format!("{tname}|Rect->Geometry->Rect|roundtrip"), format!("op {i}: {:?}", rect));
            }
            // to_lines walks the same ring as to_polygon; the deprecated try_new equals new (whatever the corner order)
            let tp = rect.to_polygon();
            let want_lines: Vec<Line<T>> = tp.exterior().0.windows(2).map(|w| Line::new(w[0], w[1])).collect();
            obs.cmp();
            if rect.to_lines().to_vec() != want_lines {
                obs.fail(format!("{tname}|Rect::to_lines|differs-from-to_polygon"), format!("op {i}: {:?} -> {:?}", rect, rect.to_lines()));
            }
            #[allow(deprecated)]
            let tn = Rect::try_new(g(0), g(1));
            obs.cmp();
            if tn.ok() != Some(Rect::new(g(0), g(1))) {
                obs.fail(format!("{tname}|Rect::try_new|differs-from-new"), format!("op {i}: {:?} {:?}", g(0), g(1)));
            }
            // Line from a pair of tuples
            let lf: Line<T> = Line::from([(g(0).x, g(0).y), (g(1).x, g(1).y)]);
            obs.cmp();
            if lf != Line::new(g(0), g(1)) {
                obs.fail(format!("{tname}|Line::from([(x,y);2])|coords"), format!("op {i}: {:?}", lf));
            }
        }
        1 => {
            // Triangle::new is documented to re-order its vertices counter-clockwise; the conversion must
            // keep the triangle's own vertex order
            let t = Triangle::new(g(0), g(1), g(2));
            let p: Polygon<T> = t.into();
            obs.cmp();
            let mut tv = vec![t.0, t.1, t.2];
            let mut gv = vec![g(0), g(1), g(2)];
            let key = |c: &Coord<T>| (c.x.to_f64().unwrap_or(0.0), c.y.to_f64().unwrap_or(0.0));
            tv.sort_by(|a, b| key(a).partial_cmp(&key(b)).unwrap());
            gv.sort_by(|a, b| key(a).partial_cmp(&key(b)).unwrap());
            if tv != gv {
                obs.fail(format!("{tname}|Triangle::new|vertices-changed"), format!("op {i}: {:?} from {:?}", t, gv));
            }
            obs.cmp();
            if p.exterior().0 != vec![t.0, t.1, t.2, t.0] || !p.interiors().is_empty() || p != t.to_polygon() {
                obs.fail(format!("{tname}|Triangle->Polygon|coords"), format!("op {i}: {:?} -> {:?}", t, p));
            }
            let back: Result<Triangle<T>, _> = Geometry::from(t).try_into();
            obs.cmp();
            if back.ok() != Some(t) {
                obs.fail(format!("{tname}|Triangle->Geometry->Triangle|roundtrip"), format!("op {i}: {:?}", t));
            }
            // the same for a triangle stored in its given (possibly clockwise) order: the tuple constructor and
            // From<[_; 3]> do not re-order, and no conversion may
            for raw in [Triangle(g(0), g(1), g(2)), Triangle::from([g(0), g(1), g(2)])] {
                obs.cmp();
                if (raw.0, raw.1, raw.2) != (g(0), g(1), g(2)) || raw.to_array() != [g(0), g(1), g(2)] {
                    obs.fail(format!("{tname}|Triangle(raw)|vertices-reordered"), format!("op {i}: {:?}", raw));
                }
                let p: Polygon<T> = raw.into();
                obs.cmp();
                if p.exterior().0 != vec![raw.0, raw.1, raw.2, raw.0] || p != raw.to_polygon() {
                    obs.fail(format!("{tname}|Triangle(raw)->Polygon|coords"), format!("op {i}: {:?} -> {:?}", raw, p));
                }
                let back: Result<Triangle<T>, _> = Geometry::from(raw).try_into();
                obs.cmp();
                if back.ok() != Some(raw) {
                    obs.fail(format!("{tname}|Triangle(raw)->Geometry->Triangle|roundtrip"), format!("op {i}: {:?}", raw));
                }
                let lines = raw.to_lines();
                obs.cmp();
                if lines != [Line::new(raw.0, raw.1), Line::new(raw.1, raw.2), Line::new(raw.2, raw.0)] {
                    obs.fail(format!("{tname}|Triangle::to_lines|wrong"), format!("op {i}: {:?} -> {:?}", raw, lines));
                }
            }
        }
        2 => {
            let l = Line::new(g(0), g(1));
            let ls: LineString<T> = l.into();
            let ls2: LineString<T> = (&l).into();
            obs.cmp();
            if ls.0 != vec![g(0), g(1)] || ls2 != ls {
                obs.fail(format!("{tname}|Line->LineString|coords"), format!("op {i}: {:?} -> {:?}", l, ls));
            }
            let back: Result<Line<T>, _> = Geometry::from(l).try_into();
            obs.cmp();
            if back.ok() != Some(l) {
                obs.fail(format!("{tname}|Line->Geometry->Line|roundtrip"), format!("op {i}: {:?}", l));
            }
        }
        3 => {
            let ge: Geometry<T> = poly.clone().into();
            let back: Result<Polygon<T>, _> = ge.clone().try_into();
            obs.cmp();
            if back.as_ref().ok() != Some(poly) {
                obs.fail(format!("{tname}|Polygon->Geometry->Polygon|roundtrip"), format!("op {i}: {:?}", poly));
            }
            let wrong: Result<LineString<T>, _> = ge.try_into();
            obs.cmp();
            if wrong.is_ok() {
                obs.fail(format!("{tname}|Polygon->Geometry->LineString|accepted"), format!("op {i}"));
            }
        }
        4 => {
            let ls = LineString::new(v.to_vec());
            let back: Result<LineString<T>, _> = Geometry::from(ls.clone()).try_into();
            obs.cmp();
            if back.ok().as_ref() != Some(&ls) {
                obs.fail(format!("{tname}|LineString->Geometry->LineString|roundtrip"), format!("op {i}: {:?}", ls));
            }
        }
        5 => {
            let mp = geo::MultiPoint::new(v.iter().map(|c| geo::Point(*c)).collect());
            let back: Result<geo::MultiPoint<T>, _> = Geometry::from(mp.clone()).try_into();
            obs.cmp();
            if back.ok().as_ref() != Some(&mp) {
                obs.fail(format!("{tname}|MultiPoint->Geometry->MultiPoint|roundtrip"), format!("op {i}: {:?}", mp));
            }
            let pt = geo::Point(g(0));
            let back: Result<geo::Point<T>, _> = Geometry::from(pt).try_into();
            obs.cmp();
            if back.ok() != Some(pt) {
                obs.fail(format!("{tname}|Point->Geometry->Point|roundtrip"), format!("op {i}: {:?}", pt));
            }
        }
        6 => {
            let mls = geo::MultiLineString::new(vec![LineString::new(v.to_vec()), poly.exterior().clone()]);
            let back: Result<geo::MultiLineString<T>, _> = Geometry::from(mls.clone()).try_into();
            obs.cmp();
            if back.ok().as_ref() != Some(&mls) {
                obs.fail(format!("{tname}|MultiLineString->Geometry->MultiLineString|roundtrip"), format!("op {i}"));
            }
        }
        _ => {
            let mp = geo::MultiPolygon::new(vec![poly.clone(), rect.to_polygon()]);
            let back: Result<geo::MultiPolygon<T>, _> = Geometry::from(mp.clone()).try_into();
            obs.cmp();
            if back.ok().as_ref() != Some(&mp) {
                obs.fail(format!("{tname}|MultiPolygon->Geometry->MultiPolygon|roundtrip"), format!("op {i}"));
            }
            obs.cmp();
            if mp.0.iter().any(|p| !p.exterior().is_closed() || p.interiors().iter().any(|r| !r.is_closed())) {
                obs.fail(format!("{tname}|MultiPolygon::new|member-ring-not-closed"), format!("op {i}"));
            }
            let gc = geo::GeometryCollection::new_from(vec![Geometry::from(poly.clone()), Geometry::from(*rect)]);
            // Geometry -> GeometryCollection goes through From<Into<Geometry>> and wraps the value in a new
            // one-member collection: coordinates and order are what must be preserved
            let back: Result<geo::GeometryCollection<T>, _> = Geometry::GeometryCollection(gc.clone()).try_into();
            obs.cmp();
            use geo::CoordsIter;
            if back.ok().map(|b| b.coords_iter().collect::<Vec<_>>()) != Some(gc.coords_iter().collect::<Vec<_>>()) {
                obs.fail(format!("{tname}|GeometryCollection->Geometry->GeometryCollection|roundtrip"), format!("op {i}"));
            }
        }
    }
}

impl Property for C18 {
    type Case = Case;
    const ID: &'static str = "C18";
    fn strategy(tier: Tier) -> BoxedStrategy<Case> {
        let n = tier.pick(16usize, 30usize);
        (proptest::collection::vec(op_strategy(), 0..=n), any::<bool>()).prop_map(|(ops, int)| Case { ops, int }).boxed()
    }
    fn quota(tier: Tier) -> u64 {
        tier.pick(4_000_000, 60_000_000)
    }
    fn rule() -> String {
        "Histories of 0-16 (thorough 0-30) public constructor / mutator calls on one Polygon<f64> or Polygon<i32> and one Rect: \
         new, exterior_mut, try_exterior_mut, interiors_mut, try_interiors_mut (closures run a generated program of ring edits \
         and, for the fallible forms, return Err after k edits incl. k = 0 and after the last), interiors_push, into_inner+new, \
         clone, LineString::close, Rect::new / set_min / set_max, and From/TryFrom conversions. A model (Vec<Coord> per ring with \
         the documented closing rule, min/max pair) is updated in lock-step; after EVERY call all rings must be closed and equal \
         the model, the closure's Result must be passed through, and the Rect must satisfy min <= max. Non-trivial = the history \
         contains a fallible mutator that returns Err after an edit that left the ring unclosed."
            .into()
    }
    fn assumptions() -> Vec<String> {
        vec![
            "finite coordinates only (NaN never compares equal, so 'closed' is undefined for it)".into(),
            "a panic of Rect::set_min/set_max on an out-of-range bound is the documented contract; the value is then discarded".into(),
        ]
    }
    fn must_hit() -> Vec<&'static str> {
        vec!["err-exit-after-unclosing-edit", "rect:corners-out-of-order", "rect:set-out-of-range-panics"]
    }
    fn check(c: &Case, obs: &mut Obs) {
        obs.label(if c.int { "scalar:i32" } else { "scalar:f64" });
        if c.int {
            run::<i32>(c, obs, &|v| v as i32, "i32");
            // unsigned rings with the first coordinate below the last: is_closed / close must not compute differences
            for op in &c.ops {
                if let Op::New { ext, .. } = op {
                    if ext.len() >= 2 {
                        let v: Vec<Coord<u32>> = ext.iter().map(|p| Coord { x: (p.0 as i32 + 200) as u32, y: (p.1 as i32 + 200) as u32 }).collect();
                        let r = guard(std::panic::AssertUnwindSafe(|| {
                            let ls = LineString::new(v.clone());
                            let mut closed = ls.clone();
                            closed.close();
                            (ls.is_closed(), closed, Polygon::new(ls.clone(), vec![]))
                        }));
                        obs.cmp();
                        match r {
                            Ok((isc, closed, p)) => {
                                let want = v.first() == v.last();
                                if isc != want || !closed.is_closed() || closed.0.len() != v.len() + (!want) as usize || p.exterior().0.first() != p.exterior().0.last() {
                                    obs.fail("u32|is_closed/close|wrong".to_string(), format!("{:?} -> is_closed {isc} close() {:?}", v, closed.0));
                                }
                            }
                            Err(pn) => obs.fail(format!("u32|is_closed/close|panic|{}", pn.site()), format!("{} {:?}", pn, v)),
                        }
                    }
                }
            }
            // integer Rects far from the origin (min + max does not fit the type, the width does): two proper halves
            for op in &c.ops {
                if let Op::RectNew(a, b) = op {
                    let sgn: i32 = if a.0 < 0 { -1 } else { 1 };
                    let big = |v: (i8, i8)| Coord { x: sgn * 1_800_000_000 + v.0 as i32 * 1_000_000, y: sgn * 1_900_000_000 + v.1 as i32 * 1_000_000 };
                    let r = Rect::new(big(*a), big(*b));
                    match guard(std::panic::AssertUnwindSafe(|| (r.split_x(), r.split_y()))) {
                        Ok(([l, rr], [bt, tp])) => {
                            obs.cmp();
                            let ok = |q: &Rect<i32>| q.min().x <= q.max().x && q.min().y <= q.max().y;
                            let inside = |q: &Rect<i32>| q.min().x >= r.min().x && q.max().x <= r.max().x && q.min().y >= r.min().y && q.max().y <= r.max().y;
                            if !(ok(&l) && ok(&rr) && ok(&bt) && ok(&tp) && inside(&l) && inside(&rr) && inside(&bt) && inside(&tp) && l.max().x == rr.min().x && bt.max().y == tp.min().y) {
                                obs.fail("i32|Rect::split_x/split_y|halves-far-from-origin".to_string(), format!("{:?} -> {:?} {:?} / {:?} {:?}", r, l, rr, bt, tp));
                            }
                        }
                        Err(p) => obs.fail(format!("i32|Rect::split_x/split_y|panic|{}", p.site()), format!("{} {:?}", p, r)),
                    }
                }
            }
        } else {
            run::<f64>(c, obs, &|v| v as f64 * 0.5, "f64");
            // rings whose ends are distinct but extremely close (products of the differences underflow): still open, and closed by
            // every constructor
            for op in &c.ops {
                if let Op::New { ext, .. } = op {
                    if ext.len() >= 2 {
                        let mut v: Vec<Coord<f64>> = ext.iter().map(|p| Coord { x: p.0 as f64 * 0.5, y: p.1 as f64 * 0.5 }).collect();
                        let f = v[0];
                        let tiny = if f.x == 0.0 { 1e-300 } else { f.x * (1.0 + f64::EPSILON) };
                        *v.last_mut().unwrap() = Coord { x: tiny, y: f.y };
                        if v[0] != *v.last().unwrap() {
                            let ls = LineString::new(v.clone());
                            obs.cmp();
                            let mut closed = ls.clone();
                            closed.close();
                            let p = Polygon::new(ls.clone(), vec![ls.clone()]);
                            let ok = !ls.is_closed() && closed.0.len() == v.len() + 1 && closed.is_closed() && p.exterior().0.len() == v.len() + 1 && p.exterior().0.first() == p.exterior().0.last() && p.interiors()[0].0.first() == p.interiors()[0].0.last();
                            if !ok {
                                obs.fail("f64|is_closed/close|ends-distinct-by-an-ulp".to_string(), format!("{:?} -> is_closed {} close() {:?}", v, ls.is_closed(), closed.0));
                            }
                            obs.label("ring:ends-distinct-by-an-ulp");
                        }
                    }
                }
            }
            // far from the origin (the sum min + max would overflow / be infinite, the width does not): still two proper halves
            for op in &c.ops {
                if let Op::RectNew(a, b) = op {
                    let sgn = if a.0 < 0 { -1.0 } else { 1.0 };
                    let big = |v: (i8, i8)| Coord { x: sgn * 1.0e308 + v.0 as f64 * 1.0e305, y: sgn * 1.2e308 + v.1 as f64 * 1.0e305 };
                    let r = Rect::new(big(*a), big(*b));
                    let ([l, rr], [bt, tp]) = (r.split_x(), r.split_y());
                    obs.cmp();
                    let ok = |q: &Rect<f64>| q.min().x <= q.max().x && q.min().y <= q.max().y && q.min().x.is_finite() && q.max().y.is_finite();
                    let inside = |q: &Rect<f64>| q.min().x >= r.min().x && q.max().x <= r.max().x && q.min().y >= r.min().y && q.max().y <= r.max().y;
                    if !(ok(&l) && ok(&rr) && ok(&bt) && ok(&tp) && inside(&l) && inside(&rr) && inside(&bt) && inside(&tp) && l.max().x == rr.min().x && bt.max().y == tp.min().y) {
                        obs.fail("f64|Rect::split_x/split_y|halves-far-from-origin".to_string(), format!("{:?} -> {:?} {:?} / {:?} {:?}", r, l, rr, bt, tp));
                    }
                    obs.label("rect:split-far-from-origin");
                }
            }
            // float only: the halves of a split Rect are Rects (min <= max), share the cut line and cover the original
            for op in &c.ops {
                if let Op::RectNew(a, b) = op {
                    let r = Rect::new(Coord { x: a.0 as f64 * 0.5, y: a.1 as f64 * 0.5 }, Coord { x: b.0 as f64 * 0.5, y: b.1 as f64 * 0.5 });
                    let ([l, rr], [bt, tp]) = (r.split_x(), r.split_y());
                    obs.cmp();
                    let ok = |q: &Rect<f64>| q.min().x <= q.max().x && q.min().y <= q.max().y;
                    let okx = ok(&l) && ok(&rr) && l.min() == r.min() && rr.max() == r.max() && l.max().x == rr.min().x && l.max().y == r.max().y && rr.min().y == r.min().y && l.max().x == (r.min().x + r.max().x) / 2.0;
                    let oky = ok(&bt) && ok(&tp) && bt.min() == r.min() && tp.max() == r.max() && bt.max().y == tp.min().y && bt.max().x == r.max().x && tp.min().x == r.min().x && bt.max().y == (r.min().y + r.max().y) / 2.0;
                    if !okx || !oky {
                        obs.fail("f64|Rect::split_x/split_y|halves".to_string(), format!("{:?} -> {:?} {:?} / {:?} {:?}", r, l, rr, bt, tp));
                    }
                }
            }
        }
    }
}
