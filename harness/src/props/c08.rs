//! C08 — convex hull is the smallest convex polygon containing the input.
use crate::engine::{guard, Obs, Property, Tier};
use crate::exact::{cross_int, C};
use crate::refgeom::measure::hull;
use geo::algorithm::convex_hull::{graham_hull, quick_hull};
use geo::{BoundingRect, ConvexHull, Coord, CoordNum, GeoNum, LineString, MinimumRotatedRect, MultiPoint, Point, Polygon};
use proptest::prelude::*;
use serde::{Deserialize, Serialize};
use std::collections::BTreeSet;

#[derive(Clone, Debug, Serialize, Deserialize)]
pub struct Case {
    /// integer-valued coordinates (|c| < 2^52 in f64 mode, < 2^29 in i64 mode)
    pub pts: Vec<C>,
    pub int: bool,
    /// how convex_hull() receives the points: 0 MultiPoint, 1 LineString, 2 Polygon exterior
    pub wrap: u8,
    /// f64 mode only: multiply x and y by these factors (1.1, 0.3, 1e-3 ...): generic, non-integer doubles whose
    /// differences are not exactly representable; the oracle then works in arbitrary-precision dyadic arithmetic
    #[serde(default)]
    pub mul: Option<(f64, f64)>,
    /// f64 mode: 0 = zeros as +0.0; otherwise every other zero coordinate (phase = this value) is spelled -0.0 - the same
    /// number, so the same hull
    #[serde(default)]
    pub zeros: u8,
}

pub struct C08;

fn pts_strategy() -> impl Strategy<Value = Vec<C>> {
    prop_oneof![
        // tiny lattices: duplicates and many collinear points
        4 => (2i64..7).prop_flat_map(|g| proptest::collection::vec((0..g, 0..g), 0..24)),
        // all collinear
        1 => ((-5i64..6, -5i64..6), (-3i64..4, -3i64..4), proptest::collection::vec(-6i64..7, 0..10))
            .prop_map(|(o, d, ts)| ts.iter().map(|t| (o.0 + d.0 * t, o.1 + d.1 * t)).collect()),
        // fewer than four points
        1 => proptest::collection::vec((-4i64..5, -4i64..5), 0..4),
        // three nearly parallel rows at large magnitude: farthest-point ties and rounding
        3 => (prop_oneof![2 => 40u32..52, 1 => 26u32..30], -3i64..4, -3i64..4, proptest::collection::vec((0i64..40, 0i64..3, 0i64..4), 3..20), any::<bool>(), any::<bool>())
            .prop_map(|(e, sx, sy, v, swap, neg)| {
                let m = 1i64 << e;
                v.iter().map(|(t, row, off)| {
                    // point = base + t*(big step) + row offset + small perturbation, kept below 2^52
                    let step = m / 64;
                    let x = m / 2 + t * step + sx * off;
                    let y = m / 2 + t * (step + sy) + row + off;
                    let (x, y) = if swap { (y, x) } else { (x, y) };
                    if neg { (-x, y) } else { (x, y) }
                }).collect()
            }),
        // random medium
        2 => proptest::collection::vec((-1000i64..1000, -1000i64..1000), 0..40),
        // lattice at a large offset
        2 => ((1i64 << 30)..(1i64 << 50), (1i64 << 30)..(1i64 << 50), proptest::collection::vec((0i64..5, 0i64..5), 3..24))
            .prop_map(|(ox, oy, v)| v.iter().map(|p| (ox + p.0, oy + p.1)).collect()),
    ]
}

fn all_collinear(p: &[C]) -> bool {
    let mut d: Vec<C> = p.to_vec();
    d.sort();
    d.dedup();
    if d.len() < 3 {
        return true;
    }
    d[2..].iter().all(|c| cross_int(d[0], d[1], *c) == 0)
}

fn check_ring<T: CoordNum + GeoNum>(name: &str, ring: &LineString<T>, back: &dyn Fn(Coord<T>) -> C, input: &[C], want: &BTreeSet<C>, obs: &mut Obs, ctx: &dyn Fn() -> String) {
    let r: Vec<C> = ring.0.iter().map(|c| back(*c)).collect();
    obs.expect(r.len() >= 4 && r.first() == r.last(), &format!("{name}|not-closed"), || format!("{:?}; {}", r, ctx()));
    if r.len() < 4 || r.first() != r.last() {
        return;
    }
    let open = &r[..r.len() - 1];
    let n = open.len();
    let inset: BTreeSet<C> = input.iter().cloned().collect();
    obs.expect(open.iter().all(|v| inset.contains(v)), &format!("{name}|vertex-not-an-input"), || format!("{:?}; {}", r, ctx()));
    let distinct: BTreeSet<C> = open.iter().cloned().collect();
    obs.expect(distinct.len() == n, &format!("{name}|repeated-vertex"), || format!("{:?}; {}", r, ctx()));
    // strictly left-turning at every vertex (implies counter-clockwise + no vertex on the segment between its neighbours)
    let strict = (0..n).all(|i| cross_int(open[i], open[(i + 1) % n], open[(i + 2) % n]) > 0);
    obs.expect(strict, &format!("{name}|not-strictly-convex-ccw"), || format!("{:?}; {}", r, ctx()));
    // containment of every input
    let contains = input.iter().all(|p| (0..n).all(|i| cross_int(open[i], open[(i + 1) % n], *p) >= 0));
    obs.expect(contains, &format!("{name}|input-outside-hull"), || format!("{:?}; {}", r, ctx()));
    obs.expect(&distinct == want, &format!("{name}|vertex-set-differs-from-exact-hull"), || format!("got {:?} want {:?}; {}", distinct, want, ctx()));
}

fn run<T: CoordNum + GeoNum>(c: &Case, obs: &mut Obs, fwd: &dyn Fn(i64) -> T, back: &dyn Fn(Coord<T>) -> C, tname: &str) {
    let coords: Vec<Coord<T>> = c.pts.iter().map(|p| Coord { x: fwd(p.0), y: fwd(p.1) }).collect();
    let ctx = || format!("{tname} pts={:?}", c.pts);
    let degenerate = all_collinear(&c.pts);
    let want: BTreeSet<C> = hull(&c.pts).into_iter().collect();
    if degenerate {
        obs.label("degenerate:fewer-than-3-non-collinear");
    } else {
        // non-trivial: an input point collinear with two hull vertices, strictly between them
        let h = hull(&c.pts);
        let n = h.len();
        let on_edge = c.pts.iter().any(|p| !want.contains(p) && (0..n).any(|i| cross_int(h[i], h[(i + 1) % n], *p) == 0));
        if on_edge {
            obs.label("input-point-on-hull-edge");
            obs.nontrivial();
        }
        let mut d = c.pts.clone();
        d.sort();
        d.dedup();
        if d.len() < c.pts.len() {
            obs.label("duplicates");
        }
        if c.pts.iter().any(|p| p.0.abs() >= 1 << 40 || p.1.abs() >= 1 << 40) {
            obs.label("magnitude>=2^40");
        }
    }
    let mut results: Vec<(&str, Result<LineString<T>, crate::engine::PanicInfo>)> = vec![];
    let mut v1 = coords.clone();
    results.push(("quick_hull", guard(std::panic::AssertUnwindSafe(|| quick_hull(&mut v1)))));
    let mut v2 = coords.clone();
    results.push(("graham_hull", guard(std::panic::AssertUnwindSafe(|| graham_hull(&mut v2, false)))));
    // the same coordinate multiset through different receivers of the ConvexHull trait
    let wrapped = guard(std::panic::AssertUnwindSafe(|| {
        let h = coords.len() / 2;
        let ring_of = |v: &[Coord<T>]| LineString::new(v.to_vec());
        match c.wrap % 8 {
            0 => MultiPoint::new(coords.iter().map(|c| Point(*c)).collect()).convex_hull(),
            1 => LineString::new(coords.clone()).convex_hull(),
            // Polygon::new closes the ring: one more copy of the first point, same coordinate set
            2 => Polygon::new(LineString::new(coords.clone()), vec![]).convex_hull(),
            3 => geo::MultiLineString::new(vec![ring_of(&coords[..h]), ring_of(&coords[h..])]).convex_hull(),
            // the hull is taken of the exterior ring only (exterior_coords_iter): all coordinates there, a repeated subset as "hole"
            4 => Polygon::new(LineString::new(coords.clone()), vec![ring_of(&coords[h..])]).convex_hull(),
            5 => geo::MultiPolygon::new(vec![Polygon::new(ring_of(&coords[..h]), vec![]), Polygon::new(ring_of(&coords[h..]), vec![])]).convex_hull(),
            6 => geo::GeometryCollection::new_from(vec![
                geo::Geometry::MultiPoint(MultiPoint::new(coords[..h].iter().map(|c| Point(*c)).collect())),
                geo::Geometry::LineString(ring_of(&coords[h..])),
            ]).convex_hull(),
            _ => geo::Geometry::MultiPoint(MultiPoint::new(coords.iter().map(|c| Point(*c)).collect())).convex_hull(),
        }
    }));
    obs.label(format!("receiver:{}", ["MultiPoint", "LineString", "Polygon", "MultiLineString", "Polygon-with-hole", "MultiPolygon", "GeometryCollection", "Geometry"][(c.wrap % 8) as usize]));
    results.push(("convex_hull", wrapped.map(|p| p.exterior().clone())));
    // (graham_hull(.., include_on_hull = true) is not covered: the statement demands that no hull vertex lies between its
    // neighbours, which that mode gives up by design; see DESIGN.md §5.3 for what was observed there)
    for (name, r) in results {
        match r {
            Ok(ring) => {
                if !degenerate {
                    check_ring(&format!("{name}:{tname}"), &ring, back, &c.pts, &want, obs, &ctx);
                    {
                        // documented on IsConvex: ConvexHull always returns a strictly convex ring unless the input is collinear
                        use geo::algorithm::is_convex::IsConvex;
                        obs.expect(ring.is_strictly_ccw_convex(), &format!("{name}:{tname}|IsConvex-says-not-strictly-ccw-convex"), || format!("{:?}; {}", ring, ctx()));
                    }
                } else {
                    // fewer than three non-collinear inputs: the statement promises no ring structure, but the hull still
                    // "contains the input" (title; the quantifier lists these inputs): its vertices are input coordinates
                    // and every input coordinate lies on the (flat) ring
                    obs.cmp();
                    let hv: Vec<C> = ring.0.iter().map(|q| back(*q)).collect();
                    let inputs: BTreeSet<C> = c.pts.iter().cloned().collect();
                    obs.expect(hv.iter().all(|v| inputs.contains(v)), &format!("{name}:{tname}|degenerate|vertex-not-an-input"), || format!("{:?}; {}", hv, ctx()));
                    if !c.pts.is_empty() {
                        let covered = |p: &C| hv.iter().any(|v| v == p) || hv.windows(2).any(|w| crate::exact::on_segment_int(w[0], w[1], *p));
                        obs.expect(c.pts.iter().all(covered), &format!("{name}:{tname}|degenerate|input-not-on-hull"), || format!("{:?}; {}", hv, ctx()));
                    }
                }
            }
            Err(p) => obs.fail(format!("{name}:{tname}|panic|{}", p.site()), format!("{} {}", p, ctx())),
        }
    }
}

type PF = (f64, f64);

/// exact strict hull of f64 points (monotone chain, exact orientation), counter-clockwise, not closed
fn hull_f64(pts: &[PF]) -> Vec<PF> {
    use crate::exact::big::orient_f64;
    let mut p: Vec<PF> = pts.to_vec();
    p.sort_by(|a, b| a.partial_cmp(b).unwrap());
    p.dedup();
    if p.len() < 3 {
        return p;
    }
    let mut lower: Vec<PF> = vec![];
    for &c in &p {
        while lower.len() >= 2 && orient_f64(lower[lower.len() - 2], lower[lower.len() - 1], c) <= 0 {
            lower.pop();
        }
        lower.push(c);
    }
    let mut upper: Vec<PF> = vec![];
    for &c in p.iter().rev() {
        while upper.len() >= 2 && orient_f64(upper[upper.len() - 2], upper[upper.len() - 1], c) <= 0 {
            upper.pop();
        }
        upper.push(c);
    }
    lower.pop();
    upper.pop();
    lower.extend(upper);
    lower
}

/// generic-double variant of the hull checks (exact oracle in dyadic arithmetic)
fn run_generic(c: &Case, mul: (f64, f64), obs: &mut Obs) {
    use crate::exact::big::{orient_f64, Dy};
    let pts: Vec<PF> = c.pts.iter().map(|p| (p.0 as f64 * mul.0, p.1 as f64 * mul.1)).collect();
    let want = hull_f64(&pts);
    if want.len() < 3 {
        obs.label("degenerate:fewer-than-3-non-collinear");
        return;
    }
    obs.label("generic-doubles");
    // input class for the known-findings matcher: is every coordinate difference exactly representable?
    let exact_diff = |u: f64, v: f64| Dy::from_f64(u).sub(&Dy::from_f64(v)).to_f64() == u - v && Dy::from_f64(u - v).sub(&Dy::from_f64(u).sub(&Dy::from_f64(v))).is_zero();
    let all_exact = pts.iter().all(|a| pts.iter().all(|b| exact_diff(a.0, b.0) && exact_diff(a.1, b.1)));
    let class = if all_exact { "" } else { "|inexact-differences" };
    if !all_exact {
        obs.label("inexact-differences");
    }
    let wset: std::collections::BTreeSet<(u64, u64)> = want.iter().map(|p| ((p.0 + 0.0).to_bits(), (p.1 + 0.0).to_bits())).collect();
    let n = want.len();
    if pts.iter().any(|p| !wset.contains(&((p.0 + 0.0).to_bits(), (p.1 + 0.0).to_bits())) && (0..n).any(|i| orient_f64(want[i], want[(i + 1) % n], *p) == 0)) {
        obs.label("input-point-on-hull-edge");
        obs.nontrivial();
    }
    let coords: Vec<Coord<f64>> = pts.iter().map(|p| Coord { x: p.0, y: p.1 }).collect();
    let ctx = || format!("f64 generic pts={:?} (lattice {:?} x {:?})", pts, c.pts, mul);
    let mut v1 = coords.clone();
    let mut v2 = coords.clone();
    let results = [
        ("quick_hull", guard(std::panic::AssertUnwindSafe(|| quick_hull(&mut v1)))),
        ("graham_hull", guard(std::panic::AssertUnwindSafe(|| graham_hull(&mut v2, false)))),
        ("convex_hull", guard(std::panic::AssertUnwindSafe(|| MultiPoint::new(coords.iter().map(|c| Point(*c)).collect()).convex_hull().exterior().clone()))),
    ];
    for (name, r) in results {
        match r {
            Err(p) => obs.fail(format!("{name}:f64|panic|{}", p.site()), format!("{} {}", p, ctx())),
            Ok(ring) => {
                let r: Vec<PF> = ring.0.iter().map(|c| (c.x, c.y)).collect();
                let key = |s: &str| format!("{name}:f64|{s}{class}");
                obs.expect(r.len() >= 4 && r.first() == r.last(), &key("not-closed"), || format!("{:?}; {}", r, ctx()));
                if r.len() < 4 || r.first() != r.last() {
                    continue;
                }
                let open = &r[..r.len() - 1];
                let m = open.len();
                let got: std::collections::BTreeSet<(u64, u64)> = open.iter().map(|p| ((p.0 + 0.0).to_bits(), (p.1 + 0.0).to_bits())).collect();
                obs.expect(got.len() == m, &key("repeated-vertex"), || format!("{:?}; {}", r, ctx()));
                let strict = (0..m).all(|i| orient_f64(open[i], open[(i + 1) % m], open[(i + 2) % m]) > 0);
                obs.expect(strict, &key("not-strictly-convex-ccw"), || format!("{:?}; {}", r, ctx()));
                let contains = pts.iter().all(|p| (0..m).all(|i| orient_f64(open[i], open[(i + 1) % m], *p) >= 0));
                obs.expect(contains, &key("input-outside-hull"), || format!("{:?}; {}", r, ctx()));
                obs.expect(got == wset, &key("vertex-set-differs-from-exact-hull"), || format!("got {:?} want {:?}; {}", open, want, ctx()));
            }
        }
    }
}

impl Property for C08 {
    type Case = Case;
    const ID: &'static str = "C08";
    fn strategy(_tier: Tier) -> BoxedStrategy<Case> {
        let generic = (
            prop_oneof![(2i64..7).prop_flat_map(|g| proptest::collection::vec((0..g, 0..g), 3..14)), proptest::collection::vec((-50i64..50, -50i64..50), 3..14)],
            prop_oneof![Just(1.1f64), Just(0.3), Just(0.9), Just(1e-3), Just(3.3333333333333335), Just(7.1e5)],
            prop_oneof![Just(0.9f64), Just(0.3), Just(1.1), Just(1e-3), Just(0.7), Just(1.0)],
        )
            .prop_map(|(pts, mx, my)| Case { pts, int: false, wrap: 0, mul: Some((mx, my)), zeros: 0 });
        let lattice = (pts_strategy(), any::<bool>(), 0u8..8, prop_oneof![2 => Just(0u8), 1 => 1u8..3])
            .prop_map(|(pts, int, wrap, zeros)| {
                let int = int && pts.iter().all(|p| p.0.abs() < (1 << 30) && p.1.abs() < (1 << 30));
                Case { pts, int, wrap, mul: None, zeros }
            });
        prop_oneof![12 => lattice, 1 => generic].boxed()
    }
    fn quota(tier: Tier) -> u64 {
        tier.pick(5_000_000, 80_000_000)
    }
    fn rule() -> String {
        "Multisets of 0-40 integer-valued coordinates (as f64 up to 2^52, with every other zero spelled -0.0 in a third of the cases, \
         or as i64 below 2^30 incl. the nearly-parallel-rows family at 2^26..2^30): tiny lattices with duplicates and many \
         collinear points, all-collinear sets, fewer than four points, three nearly parallel rows at magnitude 2^40..2^52 (ties and \
         rounding in the farthest-point search), random points, lattices at large offsets; passed to quick_hull, graham_hull(false) \
         and convex_hull() (as MultiPoint / LineString / Polygon). Oracle: exact strict monotone-chain hull in i128. Checked when \
         >= 3 non-collinear inputs: ring closed, vertices are inputs, no repeated vertex, every consecutive triple strictly \
         left-turning, every input on or left of every edge, vertex set equals the exact hull's. minimum_rotated_rect (f64, \
         |c| < 2^20): every input within 1e-7 extent of the rectangle, area <= bbox area (1+1e-9). Non-trivial = some input point \
         lies on a hull edge strictly between two hull vertices."
            .into()
    }
    fn must_hit() -> Vec<&'static str> {
        vec!["input-point-on-hull-edge", "duplicates", "magnitude>=2^40", "degenerate:fewer-than-3-non-collinear", "scalar:i64", "scalar:f64", "i64:magnitude>=2^27", "zeros-of-both-signs"]
    }
    fn check(c: &Case, obs: &mut Obs) {
        if c.pts.iter().any(|p| p.0.abs() >= (1 << 52) || p.1.abs() >= (1 << 52)) {
            obs.label("skipped:out-of-domain");
            return;
        }
        if let Some(mul) = c.mul {
            if !(mul.0.is_finite() && mul.1.is_finite() && mul.0.abs() > 1e-6 && mul.0.abs() < 1e7 && mul.1.abs() > 1e-6 && mul.1.abs() < 1e7) || c.pts.len() > 24 {
                obs.label("skipped:out-of-domain");
                return;
            }
            obs.label("scalar:f64");
            run_generic(c, mul, obs);
            return;
        }
        // (i64: coordinates below 2^30 in magnitude and of one sign per axis in the large families, so that differences stay
        // below 2^31 and the cross products of the exact integer kernel below 2^63)
        let span = |f: &dyn Fn(&C) -> i64| c.pts.iter().map(|p| f(p)).max().unwrap_or(0) as i128 - c.pts.iter().map(|p| f(p)).min().unwrap_or(0) as i128;
        if c.int && c.pts.iter().all(|p| p.0.abs() < (1 << 30) && p.1.abs() < (1 << 30)) && span(&|p| p.0) < (1 << 30) && span(&|p| p.1) < (1 << 30) {
            obs.label("scalar:i64");
            if c.pts.iter().any(|p| p.0.abs() >= 1 << 27 || p.1.abs() >= 1 << 27) {
                obs.label("i64:magnitude>=2^27");
            }
            run::<i64>(c, obs, &|v| v, &|c| (c.x, c.y), "i64");
        } else {
            obs.label("scalar:f64");
            let nth = std::cell::Cell::new(c.zeros as u32);
            let spell = |v: i64| -> f64 {
                if v == 0 && c.zeros != 0 {
                    nth.set(nth.get() + 1);
                    if nth.get() % 2 == 0 { -0.0 } else { 0.0 }
                } else {
                    v as f64
                }
            };
            if c.zeros != 0 && c.pts.iter().filter(|p| p.0 == 0).count() + c.pts.iter().filter(|p| p.1 == 0).count() >= 2 {
                obs.label("zeros-of-both-signs");
            }
            run::<f64>(c, obs, &spell, &|c| (c.x as i64, c.y as i64), "f64");
            // minimum rotated rectangle
            let maxabs = c.pts.iter().map(|p| p.0.abs().max(p.1.abs())).max().unwrap_or(0);
            if maxabs < (1 << 20) && !all_collinear(&c.pts) {
                let mp = MultiPoint::new(c.pts.iter().map(|p| Point::new(p.0 as f64, p.1 as f64)).collect());
                // other receivers holding the same coordinates give the same rectangle
                {
                    let cs: Vec<Coord<f64>> = c.pts.iter().map(|p| Coord { x: p.0 as f64, y: p.1 as f64 }).collect();
                    let alt: geo::Geometry<f64> = match c.wrap % 3 {
                        0 => geo::Geometry::LineString(LineString::new(cs)),
                        1 => geo::Geometry::Polygon(Polygon::new(LineString::new(cs), vec![])),
                        _ => geo::Geometry::GeometryCollection(geo::GeometryCollection::new_from(cs.iter().map(|q| geo::Geometry::Point(Point(*q))).collect())),
                    };
                    if let (Ok(a), Ok(b)) = (guard(std::panic::AssertUnwindSafe(|| alt.minimum_rotated_rect())), guard(std::panic::AssertUnwindSafe(|| mp.minimum_rotated_rect()))) {
                        // (the rectangle itself is not unique - several orientations can tie - but its area is)
                        use geo::Area;
                        let (aa, ab) = (a.as_ref().map(|p| p.unsigned_area()), b.as_ref().map(|p| p.unsigned_area()));
                        let same = match (aa, ab) { (Some(x), Some(y)) => (x - y).abs() <= 1e-9 * x.abs().max(y.abs()).max(1.0), (None, None) => true, _ => false };
                        obs.expect(same, "minimum_rotated_rect|area-depends-on-receiver", || format!("{:?} vs {:?}; pts={:?}", a, b, c.pts));
                    }
                }
                match guard(std::panic::AssertUnwindSafe(|| mp.minimum_rotated_rect())) {
                    Ok(Some(r)) => {
                        let e = &r.exterior().0;
                        obs.expect(e.len() == 5, "minimum_rotated_rect|not-a-quadrilateral", || format!("{:?} pts={:?}", e, c.pts));
                        if e.len() == 5 {
                            let bb = mp.bounding_rect().unwrap();
                            let ext = bb.width().max(bb.height()).max(1.0);
                            let tol = 1e-7 * ext;
                            // orientation-independent containment in a convex quadrilateral
                            let area2: f64 = (0..4).map(|i| e[i].x * e[i + 1].y - e[i + 1].x * e[i].y).sum();
                            let sgn = if area2 >= 0.0 { 1.0 } else { -1.0 };
                            let inside = c.pts.iter().all(|p| {
                                (0..4).all(|i| {
                                    let (a, b) = (e[i], e[i + 1]);
                                    let (dx, dy) = (b.x - a.x, b.y - a.y);
                                    let len = (dx * dx + dy * dy).sqrt();
                                    len == 0.0 || sgn * (dx * (p.1 as f64 - a.y) - dy * (p.0 as f64 - a.x)) >= -tol * len
                                })
                            });
                            obs.expect(inside, "minimum_rotated_rect|input-outside", || format!("rect {:?} pts={:?}", e, c.pts));
                            obs.expect(area2.abs() * 0.5 <= bb.width() * bb.height() * (1.0 + 1e-9) + 1e-9, "minimum_rotated_rect|larger-than-bbox", || {
                                format!("rect area {} bbox area {} pts={:?}", area2.abs() * 0.5, bb.width() * bb.height(), c.pts)
                            });
                        }
                    }
                    Ok(None) => obs.fail("minimum_rotated_rect|none-for-non-degenerate", format!("pts={:?}", c.pts)),
                    Err(p) => obs.fail(format!("minimum_rotated_rect|panic|{}", p.site()), format!("{} pts={:?}", p, c.pts)),
                }
            }
        }
    }
}
