//! C11 — line_intersection classifies and locates segment crossings exactly.
use crate::conv::{ulp, Xf};
use crate::engine::{guard, Obs, Property, Tier};
use crate::exact::big::{orient_f64, Dy};
use crate::gen::xf_strategy;
use geo::algorithm::line_intersection::{line_intersection, LineIntersection};
use geo::{Coord, Intersects, Line};
use proptest::prelude::*;
use serde::{Deserialize, Serialize};
use std::cmp::Ordering;

type P = (f64, f64);

#[derive(Clone, Debug, Serialize, Deserialize)]
pub struct Case {
    /// a, b = first segment; c, d = second segment (bit-exact through the float_roundtrip JSON)
    pub pts: [P; 4],
}

pub struct C11;

#[derive(Debug, Clone, PartialEq)]
pub enum Exact {
    None,
    /// single shared point; `proper` = interior to both segments; `endpoint` = an input endpoint equal to it
    Point { proper: bool, endpoint: Option<P> },
    /// overlap of positive length, endpoints are input endpoints
    Overlap(P, P),
}

fn cmp_pt(a: P, b: P) -> Ordering {
    // exact: f64 comparison is exact
    a.0.partial_cmp(&b.0).unwrap().then(a.1.partial_cmp(&b.1).unwrap())
}

/// p on closed segment [a,b], all exact
fn on_seg(a: P, b: P, p: P) -> bool {
    orient_f64(a, b, p) == 0 && p.0 >= a.0.min(b.0) && p.0 <= a.0.max(b.0) && p.1 >= a.1.min(b.1) && p.1 <= a.1.max(b.1)
}

pub fn exact_intersection(a: P, b: P, c: P, d: P) -> Exact {
    if a == b && c == d {
        return if a == c { Exact::Point { proper: false, endpoint: Some(a) } } else { Exact::None };
    }
    if a == b {
        return if on_seg(c, d, a) { Exact::Point { proper: false, endpoint: Some(a) } } else { Exact::None };
    }
    if c == d {
        return if on_seg(a, b, c) { Exact::Point { proper: false, endpoint: Some(c) } } else { Exact::None };
    }
    let (o1, o2, o3, o4) = (orient_f64(a, b, c), orient_f64(a, b, d), orient_f64(c, d, a), orient_f64(c, d, b));
    if o1 == 0 && o2 == 0 {
        // collinear: order along the line = lexicographic order
        let (p0, p1) = if cmp_pt(a, b) == Ordering::Greater { (b, a) } else { (a, b) };
        let (q0, q1) = if cmp_pt(c, d) == Ordering::Greater { (d, c) } else { (c, d) };
        let lo = if cmp_pt(p0, q0) == Ordering::Greater { p0 } else { q0 };
        let hi = if cmp_pt(p1, q1) == Ordering::Less { p1 } else { q1 };
        return match cmp_pt(lo, hi) {
            Ordering::Greater => Exact::None,
            Ordering::Equal => Exact::Point { proper: false, endpoint: Some(lo) },
            Ordering::Less => Exact::Overlap(lo, hi),
        };
    }
    if o1 * o2 > 0 || o3 * o4 > 0 {
        return Exact::None;
    }
    let proper = o1 != 0 && o2 != 0 && o3 != 0 && o4 != 0;
    let endpoint = if proper {
        None
    } else if o1 == 0 {
        Some(c)
    } else if o2 == 0 {
        Some(d)
    } else if o3 == 0 {
        Some(a)
    } else {
        Some(b)
    };
    Exact::Point { proper, endpoint }
}

/// true crossing point of the two supporting lines (non-parallel), to f64 accuracy
fn true_crossing(a: P, b: P, c: P, d: P) -> (f64, f64) {
    let f = Dy::from_f64;
    let (rx, ry) = (f(b.0).sub(&f(a.0)), f(b.1).sub(&f(a.1)));
    let (sx, sy) = (f(d.0).sub(&f(c.0)), f(d.1).sub(&f(c.1)));
    let den = rx.mul(&sy).sub(&ry.mul(&sx));
    let num = f(c.0).sub(&f(a.0)).mul(&sy).sub(&f(c.1).sub(&f(a.1)).mul(&sx));
    // point = a + (num/den) r, evaluated as (a*den + num*r)/den with exact numerators
    let xn = f(a.0).mul(&den).add(&num.mul(&rx));
    let yn = f(a.1).mul(&den).add(&num.mul(&ry));
    (ratio(&xn, &den), ratio(&yn, &den))
}

fn ratio(n: &Dy, d: &Dy) -> f64 {
    // scale both to comparable exponents to avoid overflow: use to_f64 of mantissas with exponent difference
    let nb = n.m.bit_len() as i32 + n.e;
    let db = d.m.bit_len() as i32 + d.e;
    let nn = Dy { m: n.m.clone(), e: n.e - nb };
    let dd = Dy { m: d.m.clone(), e: d.e - db };
    (nn.to_f64() / dd.to_f64()) * 2f64.powi(nb - db)
}

fn seg_strategy() -> impl Strategy<Value = [P; 4]> {
    let lat = |g: i64| (0..=g, 0..=g);
    prop_oneof![
        // small lattice: every collinear sub-case, T junctions, shared endpoints, zero-length
        6 => (2i64..7).prop_flat_map(move |g| (lat(g), lat(g), lat(g), lat(g), xf_strategy())).prop_map(|(a, b, c, d, xf)| {
            let m = |p: (i64, i64)| { let q = xf.apply(p); (q.x, q.y) };
            [m(a), m(b), m(c), m(d)]
        }),
        // collinear on a common line through the lattice
        3 => ((0i64..5, 0i64..5), (-3i64..4, -3i64..4), [-4i64..8, -4i64..8, -4i64..8, -4i64..8], xf_strategy()).prop_map(|(o, dir, t, xf)| {
            let m = |k: i64| { let q = xf.apply((o.0 + dir.0 * k, o.1 + dir.1 * k)); (q.x, q.y) };
            [m(t[0]), m(t[1]), m(t[2]), m(t[3])]
        }),
        // nearly parallel: second segment is the first one perturbed by a few ulps
        3 => ((-1e6f64..1e6, -1e6f64..1e6), (-1e6f64..1e6, -1e6f64..1e6), [-3i32..4, -3i32..4, -3i32..4, -3i32..4], 0.0f64..1.0, 0.0f64..1.0).prop_map(|(a, b, k, s, t)| {
            let nudge = |v: f64, n: i32| { if v == 0.0 { v } else { f64::from_bits((v.to_bits() as i64 + n as i64) as u64) } };
            let lerp = |u: f64| (a.0 + (b.0 - a.0) * u, a.1 + (b.1 - a.1) * u);
            let (c, d) = (lerp(s), lerp(t));
            [a, b, (nudge(c.0, k[0]), nudge(c.1, k[1])), (nudge(d.0, k[2]), nudge(d.1, k[3]))]
        }),
        // exactly collinear large integers perturbed by ulps
        2 => (30u32..52, [0i64..64, 0i64..64, 0i64..64, 0i64..64], (1i64..5, 1i64..5), [-2i64..3, -2i64..3, -2i64..3, -2i64..3]).prop_map(|(e, t, dir, k)| {
            let base = 1i64 << e;
            let m = |i: usize| ((base + dir.0 * t[i] + if i >= 2 { k[i] } else { 0 }) as f64, (base + dir.1 * t[i] + if i >= 2 { k[(i + 1) % 4] } else { 0 }) as f64);
            [m(0), m(1), m(2), m(3)]
        }),
        // random finite doubles
        3 => [(-1e3f64..1e3, -1e3f64..1e3), (-1e3f64..1e3, -1e3f64..1e3), (-1e3f64..1e3, -1e3f64..1e3), (-1e3f64..1e3, -1e3f64..1e3)],
        // the small lattice at a uniformly extreme scale 2^k, |k| up to 395 (every coordinate stays exactly representable)
        1 => ((2i64..7).prop_flat_map(move |g| (lat(g), lat(g), lat(g), lat(g))), prop_oneof![-395i32..-200, 200i32..396]).prop_map(|((a, b, c, d), k)| {
            let m = |p: (i64, i64)| (p.0 as f64 * 2f64.powi(k), p.1 as f64 * 2f64.powi(k));
            [m(a), m(b), m(c), m(d)]
        }),
        // end points that almost coincide (a few ulps apart): crossings right at the ends of both segments
        3 => ((-1100.0f64..1100.0, -1100.0f64..1100.0), (-1100.0f64..1100.0, -1e-6f64..1e-6), (-1100.0f64..1100.0, -1100.0f64..1100.0), [-3i64..4, -3i64..4], any::<bool>()).prop_map(|(a, b, d, k, swap)| {
            let nudge = |v: f64, n: i64| if v == 0.0 { v } else { f64::from_bits((v.to_bits() as i64 + n) as u64) };
            let c = (nudge(b.0, k[0]), nudge(b.1, k[1]));
            if swap { [a, b, d, c] } else { [a, b, c, d] }
        }),
        // segment through a computed point of another (T junction in floating point)
        2 => ((-100.0f64..100.0, -100.0f64..100.0), (-100.0f64..100.0, -100.0f64..100.0), 0.0f64..1.0, (-100.0f64..100.0, -100.0f64..100.0))
            .prop_map(|(a, b, t, d)| [a, b, (a.0 + (b.0 - a.0) * t, a.1 + (b.1 - a.1) * t), d]),
    ]
}

fn bits(p: P) -> (u64, u64) {
    // -0.0 and 0.0 compare equal as coordinates; normalise
    ((p.0 + 0.0).to_bits(), (p.1 + 0.0).to_bits())
}

impl Property for C11 {
    type Case = Case;
    const ID: &'static str = "C11";
    fn strategy(_tier: Tier) -> BoxedStrategy<Case> {
        seg_strategy().prop_map(|pts| Case { pts }).boxed()
    }
    fn quota(tier: Tier) -> u64 {
        tier.pick(8_000_000, 120_000_000)
    }
    fn rule() -> String {
        "Segment pairs: small-lattice segments (all collinear sub-cases, T junctions, shared endpoints, zero-length) mapped by exact \
         similarities up to 2^40 offsets; four points on a common lattice line; nearly parallel pairs (second segment = points of the \
         first nudged by 0-3 ulps); collinear integers at 2^30..2^52 perturbed by units; random doubles; floating-point T junctions. \
         Oracle: exact classification with arbitrary-precision dyadic arithmetic (orientation signs, collinear overlap by \
         lexicographic order). Checked: None <=> no shared point; Collinear <=> overlap of positive length with the exact overlap \
         endpoints (unordered, bit-identical); SinglePoint.is_proper <=> interior to both (not asserted for zero-length segments); \
         improper point bit-identical to the endpoint involved; proper point inside both bounding boxes and, when |sin angle| > 2^-20, \
         within 16 ulp(max|coord|) / |sin angle| of the true crossing; agreement with Line::intersects; same class / improper point / overlap when the \
         two segments are swapped or reversed; the same four points rounded to f32 through line_intersection::<f32> and \
         Line<f32>::intersects against the exact classification of the rounded points; uniformly extreme scales 2^+-200..395. \
         Non-trivial = the segments' envelopes intersect."
            .into()
    }
    fn must_hit() -> Vec<&'static str> {
        vec!["exact:none", "exact:proper", "exact:improper", "exact:overlap", "zero-length", "collinear-disjoint", "nearly-parallel"]
    }
    fn check(c: &Case, obs: &mut Obs) {
        let [a, b, cc, d] = c.pts;
        let in_range = |v: f64| v == 0.0 || (v.is_finite() && v.abs() >= 2f64.powi(-400) && v.abs() <= 2f64.powi(400));
        if c.pts.iter().any(|p| !in_range(p.0) || !in_range(p.1)) {
            obs.label("skipped:out-of-domain");
            return;
        }
        let want = exact_intersection(a, b, cc, d);
        let env = a.0.min(b.0) <= cc.0.max(d.0) && cc.0.min(d.0) <= a.0.max(b.0) && a.1.min(b.1) <= cc.1.max(d.1) && cc.1.min(d.1) <= a.1.max(b.1);
        if env {
            obs.nontrivial();
        }
        let zero_len = a == b || cc == d;
        if zero_len {
            obs.label("zero-length");
        }
        match &want {
            Exact::None => {
                obs.label("exact:none");
                if !zero_len && orient_f64(a, b, cc) == 0 && orient_f64(a, b, d) == 0 {
                    obs.label("collinear-disjoint");
                }
            }
            Exact::Point { proper: true, .. } => obs.label("exact:proper"),
            Exact::Point { proper: false, .. } => obs.label("exact:improper"),
            Exact::Overlap(..) => obs.label("exact:overlap"),
        }
        let co = |p: P| Coord { x: p.0, y: p.1 };
        let (l1, l2) = (Line::new(co(a), co(b)), Line::new(co(cc), co(d)));
        let ctx = || format!("p=({:?},{:?}) q=({:?},{:?}) bits={:?} exact={:?}", a, b, cc, d, c.pts.iter().map(|p| bits(*p)).collect::<Vec<_>>(), want);
        let got = match guard(std::panic::AssertUnwindSafe(|| line_intersection(l1, l2))) {
            Ok(g) => g,
            Err(p) => {
                obs.fail(format!("line_intersection|panic|{}", p.site()), format!("{} {}", p, ctx()));
                return;
            }
        };
        // sine of the angle between the segments
        let (rx, ry, sx, sy) = (b.0 - a.0, b.1 - a.1, d.0 - cc.0, d.1 - cc.1);
        let sin = ((rx * sy - ry * sx) / ((rx * rx + ry * ry).sqrt() * (sx * sx + sy * sy).sqrt())).abs();
        if sin < 1e-6 && !zero_len {
            obs.label("nearly-parallel");
        }
        let class = |g: &Option<LineIntersection<f64>>| match g {
            None => "None",
            Some(LineIntersection::SinglePoint { is_proper: true, .. }) => "Proper",
            Some(LineIntersection::SinglePoint { is_proper: false, .. }) => "Improper",
            Some(LineIntersection::Collinear { .. }) => "Collinear",
        };
        // the accessor agrees with the variant: proper only for a SinglePoint flagged so, never for an overlap
        if let Some(g) = &got {
            let want_flag = matches!(g, LineIntersection::SinglePoint { is_proper: true, .. });
            obs.expect(g.is_proper() == want_flag, "LineIntersection::is_proper|disagrees-with-variant", || format!("{:?}; {}", g, ctx()));
        }
        obs.cmp();
        match (&got, &want) {
            (None, Exact::None) => {}
            (Some(LineIntersection::Collinear { intersection }), Exact::Overlap(lo, hi)) => {
                let (s, e) = ((intersection.start.x, intersection.start.y), (intersection.end.x, intersection.end.y));
                let ok = (bits(s) == bits(*lo) && bits(e) == bits(*hi)) || (bits(s) == bits(*hi) && bits(e) == bits(*lo));
                obs.expect(ok, "line_intersection|overlap-endpoints", || format!("got {:?}; {}", intersection, ctx()));
            }
            (Some(LineIntersection::SinglePoint { intersection, is_proper }), Exact::Point { proper, endpoint }) => {
                let p = (intersection.x, intersection.y);
                if !zero_len {
                    obs.expect(is_proper == proper, &format!("line_intersection|proper-flag|got={is_proper}"), || format!("got {:?}; {}", got, ctx()));
                }
                if let Some(ep) = endpoint {
                    // several endpoints may coincide with the point: any endpoint equal to the true point is acceptable
                    let ok = c.pts.iter().any(|q| bits(*q) == bits(p)) && (bits(p) == bits(*ep) || (p.0 == ep.0 && p.1 == ep.1));
                    obs.expect(ok, "line_intersection|improper-point-not-the-endpoint", || format!("got {:?}; {}", p, ctx()));
                } else {
                    let inb = |u: P, v: P| p.0 >= u.0.min(v.0) && p.0 <= u.0.max(v.0) && p.1 >= u.1.min(v.1) && p.1 <= u.1.max(v.1);
                    // input class for the known-findings matcher: coordinate magnitudes spanning more than 2^64
                    let mags: Vec<f64> = c.pts.iter().flat_map(|q| [q.0.abs(), q.1.abs()]).filter(|v| *v > 0.0).collect();
                    let (lo, hi) = (mags.iter().cloned().fold(f64::INFINITY, f64::min), mags.iter().cloned().fold(0.0, f64::max));
                    let class = if hi / lo > 2f64.powi(64) { "|dynamic-range>2^64" } else { "" };
                    obs.expect(inb(a, b) && inb(cc, d), &format!("line_intersection|proper-point-outside-envelope{class}"), || format!("got {:?}; {}", p, ctx()));
                    if sin > 2f64.powi(-20) {
                        let t = true_crossing(a, b, cc, d);
                        let maxabs = c.pts.iter().fold(0f64, |m, q| m.max(q.0.abs()).max(q.1.abs()));
                        // the crossing of two lines is conditioned like 1 / sin(angle): a few ulps, scaled by that
                        let tol = 16.0 * ulp(maxabs) / sin;
                        // input class for the known-findings matcher: magnitudes at which the triple products of the
                        // homogeneous intersection formula overflow (above 2^330) or underflow (below 2^-330)
                        let ext = if hi > 2f64.powi(330) || lo < 2f64.powi(-330) { "|magnitude-beyond-2^330" } else { "" };
                        obs.expect((p.0 - t.0).abs() <= tol && (p.1 - t.1).abs() <= tol, &format!("line_intersection|proper-point-inaccurate{ext}"), || {
                            format!("got {:?} true {:?} tol {tol}; {}", p, t, ctx())
                        });
                    }
                }
            }
            _ => obs.fail(
                format!("line_intersection|class|got={},want={}{}", class(&got), match &want { Exact::None => "None", Exact::Point { proper: true, .. } => "Proper", Exact::Point { .. } => "Improper", Exact::Overlap(..) => "Collinear" }, if zero_len { "|zero-length" } else { "" }),
                format!("got {:?}; {}", got, ctx()),
            ),
        }
        // agreement with intersects
        let it = l1.intersects(&l2);
        obs.expect(it == (want != Exact::None), "Line::intersects(Line)|disagrees-with-exact", || format!("intersects={it}; {}", ctx()));
        // order independence: swap the segments, reverse each
        let (r1, r2) = (Line::new(l1.end, l1.start), Line::new(l2.end, l2.start));
        for (name, m1, m2) in [("swapped", l2, l1), ("p-reversed", r1, l2), ("q-reversed", l1, r2), ("both-reversed", r1, r2), ("swapped+p-reversed", l2, r1), ("swapped+q-reversed", r2, l1), ("swapped+both-reversed", r2, r1)] {
            let g2 = match guard(std::panic::AssertUnwindSafe(|| line_intersection(m1, m2))) {
                Ok(g) => g,
                Err(p) => {
                    obs.fail(format!("line_intersection|panic|{}", p.site()), format!("{name}: {} {}", p, ctx()));
                    continue;
                }
            };
            obs.cmp();
            let same = match (&got, &g2) {
                (None, None) => true,
                (Some(LineIntersection::Collinear { intersection: x }), Some(LineIntersection::Collinear { intersection: y })) => {
                    (x.start == y.start && x.end == y.end) || (x.start == y.end && x.end == y.start)
                }
                (Some(LineIntersection::SinglePoint { intersection: x, is_proper: px }), Some(LineIntersection::SinglePoint { intersection: y, is_proper: py })) => {
                    px == py && (*px || x == y)
                }
                _ => false,
            };
            if !same {
                obs.fail(format!("line_intersection|order-dependent|{name}"), format!("{:?} vs {:?}; {}", got, g2, ctx()));
            }
            // a proper point must be accurate in every operand order
            if let (Some(LineIntersection::SinglePoint { intersection: y, is_proper: true }), Exact::Point { proper: true, .. }) = (&g2, &want) {
                if sin > 2f64.powi(-20) {
                    let t = true_crossing(a, b, cc, d);
                    let maxabs = c.pts.iter().fold(0f64, |m, q| m.max(q.0.abs()).max(q.1.abs()));
                    let tol = 16.0 * ulp(maxabs) / sin;
                    let ext = {
                        let mags: Vec<f64> = c.pts.iter().flat_map(|q| [q.0.abs(), q.1.abs()]).filter(|v| *v > 0.0).collect();
                        let (lo, hi) = (mags.iter().cloned().fold(f64::INFINITY, f64::min), mags.iter().cloned().fold(0.0, f64::max));
                        if hi > 2f64.powi(330) || lo < 2f64.powi(-330) { "|magnitude-beyond-2^330" } else { "" }
                    };
                    obs.expect((y.x - t.0).abs() <= tol && (y.y - t.1).abs() <= tol, &format!("line_intersection|proper-point-inaccurate{ext}"), || format!("{name}: got {:?} true {:?} tol {tol}; {}", y, t, ctx()));
                }
            }
        }
        // the same four points rounded to f32 (every f32 is an f64, so the exact classification applies to the rounded points
        // as they are): class of the result, the point inside both envelopes, and agreement with Line<f32>::intersects
        let q32: [(f32, f32); 4] = [(a.0 as f32, a.1 as f32), (b.0 as f32, b.1 as f32), (cc.0 as f32, cc.1 as f32), (d.0 as f32, d.1 as f32)];
        let ok32 = |v: f32| v == 0.0 || (v.is_finite() && v.abs() >= 2f32.powi(-40) && v.abs() <= 2f32.powi(40));
        if q32.iter().all(|p| ok32(p.0) && ok32(p.1)) {
            let w: Vec<P> = q32.iter().map(|p| (p.0 as f64, p.1 as f64)).collect();
            let want32 = exact_intersection(w[0], w[1], w[2], w[3]);
            let c32 = |p: (f32, f32)| Coord { x: p.0, y: p.1 };
            let (m1, m2) = (Line::new(c32(q32[0]), c32(q32[1])), Line::new(c32(q32[2]), c32(q32[3])));
            let ctx32 = || format!("f32 p=({:?},{:?}) q=({:?},{:?}) exact={:?}", q32[0], q32[1], q32[2], q32[3], want32);
            match guard(std::panic::AssertUnwindSafe(|| (line_intersection(m1, m2), m1.intersects(&m2), m2.intersects(&m1)))) {
                Ok((g, i12, i21)) => {
                    obs.cmp();
                    let zero32 = q32[0] == q32[1] || q32[2] == q32[3];
                    let got_class = match &g {
                        None => "None",
                        Some(LineIntersection::SinglePoint { is_proper: true, .. }) => "Proper",
                        Some(LineIntersection::SinglePoint { is_proper: false, .. }) => "Improper",
                        Some(LineIntersection::Collinear { .. }) => "Collinear",
                    };
                    let want_class = match &want32 { Exact::None => "None", Exact::Point { proper: true, .. } => "Proper", Exact::Point { .. } => "Improper", Exact::Overlap(..) => "Collinear" };
                    if !zero32 {
                        obs.expect(got_class == want_class, &format!("line_intersection<f32>|class|got={got_class},want={want_class}"), || format!("got {:?}; {}", g, ctx32()));
                    }
                    obs.expect(i12 == (want32 != Exact::None) && i21 == i12, "Line<f32>::intersects(Line)|disagrees-with-exact", || format!("intersects={i12}/{i21}; {}", ctx32()));
                    if let Some(LineIntersection::SinglePoint { intersection: p, .. }) = &g {
                        let inb = |u: (f32, f32), v: (f32, f32)| p.x >= u.0.min(v.0) && p.x <= u.0.max(v.0) && p.y >= u.1.min(v.1) && p.y <= u.1.max(v.1);
                        obs.expect(inb(q32[0], q32[1]) && inb(q32[2], q32[3]), "line_intersection<f32>|point-outside-envelope", || format!("got {:?}; {}", p, ctx32()));
                    }
                }
                Err(p) => obs.fail(format!("line_intersection<f32>|panic|{}", p.site()), format!("{} {}", p, ctx32())),
            }
        }
    }
}
