//! C10 — triangulations and monotone subdivision tile the polygon exactly.
use crate::conv::{to_geo, wkt, Xf};
use crate::engine::{guard, Obs, Property, Tier};
use crate::exact::{cross_int, on_segment_int, C, HP};
use crate::gen::{areal_strategy, xf_strategy};
use crate::refgeom::cells::trapezoids;
use crate::refgeom::measure::{hull, twice_area_poly, twice_area_ring};
use crate::refgeom::validity::in_relate_domain;
use crate::refgeom::{Loc, Located, Poly, G};
use geo::algorithm::monotone::MonotonicPolygons;
use geo::StitchTriangles;
use geo::triangulate_delaunay::{DelaunayTriangulationConfig, TriangulateDelaunay};
use geo::{Area, Coord, Geometry, Intersects, MultiPolygon, Polygon, Triangle, TriangulateEarcut};
use proptest::prelude::*;
use serde::{Deserialize, Serialize};
use serde_json::{json, Value};
use std::collections::HashMap;

#[derive(Clone, Debug, Serialize, Deserialize)]
pub struct Case {
    pub g: G,
    pub xf: Xf,
    #[serde(skip)]
    pub trusted: bool,
}

pub struct C10;

fn polys_of(g: &G) -> Vec<Poly> {
    match g {
        G::Polygon(p) => vec![p.clone()],
        G::MultiPolygon(v) => v.clone(),
        _ => vec![],
    }
}

/// do any two rings of the polygon touch?
fn rings_touch(p: &Poly) -> bool {
    let rings: Vec<&Vec<C>> = p.rings().collect();
    for i in 0..rings.len() {
        for j in 0..rings.len() {
            if i != j && rings[i].iter().any(|v| rings[j].windows(2).any(|w| on_segment_int(w[0], w[1], *v))) {
                return true;
            }
        }
    }
    false
}

/// coverage check: every trapezoid of the arrangement (region ∪ pieces) must be covered by exactly
/// one piece when inside `region` and by none otherwise.
fn check_tiling(name: &str, region: &G, pieces: &[Vec<C>], obs: &mut Obs, ctx: &dyn Fn() -> String) {
    let mut segs: Vec<(C, C)> = region.segments();
    for p in pieces {
        for w in p.windows(2) {
            segs.push((w[0], w[1]));
        }
    }
    segs.retain(|s| s.0 != s.1);
    let reg = Located::new(region);
    let locs: Vec<Located> = pieces.iter().map(|p| Located::new(&G::Polygon(Poly::new(p.clone(), vec![])))).collect();
    for t in trapezoids(&segs) {
        let inside = reg.locate(t.sample) == Loc::I;
        let n = locs.iter().filter(|l| l.locate(t.sample) != Loc::E).count();
        obs.cmp();
        if inside && n == 0 {
            obs.fail(format!("{name}|gap"), format!("point {:?} is inside the region but in no piece; pieces {:?}; {}", t.sample.to_f64(), pieces, ctx()));
            return;
        }
        if inside && n > 1 {
            obs.fail(format!("{name}|overlap"), format!("point {:?} is in {n} pieces; pieces {:?}; {}", t.sample.to_f64(), pieces, ctx()));
            return;
        }
        if !inside && n > 0 {
            obs.fail(format!("{name}|outside"), format!("point {:?} is outside the region but in {n} piece(s); pieces {:?}; {}", t.sample.to_f64(), pieces, ctx()));
            return;
        }
    }
    // area sum (follows from the coverage, asserted directly as well)
    let want: i128 = match region {
        G::Polygon(p) => twice_area_poly(p),
        G::MultiPolygon(v) => v.iter().map(twice_area_poly).sum(),
        _ => 0,
    };
    let got: i128 = pieces.iter().map(|p| twice_area_ring(p).abs()).sum();
    obs.expect(got == want, &format!("{name}|area-sum"), || format!("pieces sum to {} but the region has {}; {}", got as f64 / 2.0, want as f64 / 2.0, ctx()));
}

impl Property for C10 {
    type Case = Case;
    const ID: &'static str = "C10";
    fn strategy(_tier: Tier) -> BoxedStrategy<Case> {
        (areal_strategy(), xf_strategy()).prop_map(|(g, xf)| Case { g, xf, trusted: true }).boxed()
    }
    fn quota(tier: Tier) -> u64 {
        tier.pick(300_000, 6_000_000)
    }
    fn rule() -> String {
        "Valid polygons and multipolygons from all ring families (polyomino outlines: concave, many collinear vertices, vertical \
         and horizontal edges, holes, holes touching the shell or each other at a vertex; hulls; star rings; convex shells with a \
         triangular hole touching an edge; integer-matrix images) under exact similarities (offsets up to 2^40, 2^k scaling, D4). \
         Oracle: coverage count on the exact trapezoid decomposition of (polygon edges ∪ piece edges): every cell inside the \
         polygon must lie in exactly one piece, every cell outside in none; exact area sums. Checked for earcut_triangles (rings \
         that do not touch), constrained_triangulation, constrained_outer_triangulation and unconstrained_triangulation (tile the \
         exact hull), monotone_subdivision pieces (also x-monotone chains sharing their end points), piece corners are polygon \
         vertices, MonotonicPolygons::intersects(c) vs exact point location at every lattice point of the grown bounding box, \
         stitch_triangulation area. Err(TriangulationError) is counted, not alarmed. Non-trivial = non-convex or with a hole."
            .into()
    }
    fn must_hit() -> Vec<&'static str> {
        vec!["non-convex", "has-hole", "hole-tangent", "vertical-left-edge", "collinear-vertices", "large-offset"]
    }
    fn show(c: &Case) -> Value {
        json!({"g": wkt(&c.g), "xf": c.xf})
    }
    fn check(c: &Case, obs: &mut Obs) {
        if !matches!(c.g, G::Polygon(_) | G::MultiPolygon(_)) || c.g.is_empty() || (!c.trusted && !in_relate_domain(&c.g)) {
            obs.label("skipped:out-of-domain");
            return;
        }
        let polys = polys_of(&c.g);
        let gg = to_geo(&c.g, &c.xf);
        let tn = c.g.type_name();
        let ctx = || format!("g={} xf={:?}", wkt(&c.g), c.xf);
        // labels
        for p in &polys {
            if !p.holes.is_empty() {
                obs.label("has-hole");
                obs.nontrivial();
                if rings_touch(p) {
                    obs.label("hole-tangent");
                }
            }
            let n = p.ext.len() - 1;
            let sgn = twice_area_ring(&p.ext).signum();
            let turns: Vec<i128> = (0..n).map(|i| cross_int(p.ext[i], p.ext[(i + 1) % n], p.ext[(i + 2) % n])).collect();
            if turns.iter().any(|t| t.signum() == -sgn) {
                obs.label("non-convex");
                obs.nontrivial();
            }
            if turns.iter().any(|t| *t == 0) {
                obs.label("collinear-vertices");
            }
            // vertical left edge in the transformed frame
            let tc: Vec<Coord<f64>> = p.ext.iter().map(|q| c.xf.apply(*q)).collect();
            let xmin = tc.iter().map(|q| q.x).fold(f64::INFINITY, f64::min);
            if tc.windows(2).any(|w| w[0].x == xmin && w[1].x == xmin && w[0].y != w[1].y) {
                obs.label("vertical-left-edge");
            }
        }
        if c.xf.tx.unsigned_abs().max(c.xf.ty.unsigned_abs()) >= (1 << 26) {
            obs.label("large-offset");
        }
        // lattice lookup of transformed coordinates
        let mut back: HashMap<(u64, u64), C> = HashMap::new();
        for q in c.g.coords() {
            let t = c.xf.apply(q);
            back.insert(((t.x + 0.0).to_bits(), (t.y + 0.0).to_bits()), q);
        }
        let lookup = |p: Coord<f64>| -> Option<C> { back.get(&((p.x + 0.0).to_bits(), (p.y + 0.0).to_bits())).copied() };
        let tri_rings = |name: &str, ts: &[Triangle<f64>], obs: &mut Obs| -> Option<Vec<Vec<C>>> {
            let mut out = vec![];
            for t in ts {
                match (lookup(t.0), lookup(t.1), lookup(t.2)) {
                    (Some(a), Some(b), Some(cc)) => out.push(vec![a, b, cc, a]),
                    _ => {
                        obs.fail(format!("{name}|corner-not-a-polygon-vertex"), format!("{:?}; {}", t, ctx()));
                        return None;
                    }
                }
            }
            Some(out)
        };
        let s = c.xf.scale();
        let config = DelaunayTriangulationConfig { snap_radius: 1e-4 * s };
        let want_area = polys.iter().map(twice_area_poly).sum::<i128>() as f64 * 0.5 * s * s;
        let stitch_check = |name: &str, ts: &[Triangle<f64>], want: f64, obs: &mut Obs| {
            // input class for the known-findings matcher: the triangulation is not conforming (an edge of one
            // triangle passes through a vertex of another: happens with collinear ring vertices)
            let lat: Vec<[C; 3]> = ts.iter().filter_map(|t| Some([lookup(t.0)?, lookup(t.1)?, lookup(t.2)?])).collect();
            let mut tj = false;
            'outer: for t in &lat {
                for e in 0..3 {
                    let (a, b) = (t[e], t[(e + 1) % 3]);
                    for u in &lat {
                        for v in u {
                            if *v != a && *v != b && on_segment_int(a, b, *v) {
                                tj = true;
                                break 'outer;
                            }
                        }
                    }
                }
            }
            // second input class: the boundary passes twice through one vertex - two members of the multipolygon touch
            // there, or a hole touches its shell / another hole (a pinch): the boundary lines do not determine the rings
            let mut seen: std::collections::BTreeMap<C, (usize, usize)> = std::collections::BTreeMap::new();
            let (mut members_touch, mut ring_pinch) = (false, false);
            for (pi, po) in polys.iter().enumerate() {
                for r in po.rings() {
                    for v in &r[..r.len().saturating_sub(1)] {
                        match seen.get(v) {
                            Some((qi, _)) if *qi != pi => members_touch = true,
                            Some(_) => ring_pinch = true,
                            None => { seen.insert(*v, (pi, 0)); }
                        }
                    }
                }
            }
            let class = if tj { "|t-junction" } else if members_touch { "|members-touch-at-a-vertex" } else if ring_pinch { "|ring-pinch" } else { "" };
            if tj {
                obs.label("non-conforming-triangulation");
            }
            match guard(std::panic::AssertUnwindSafe(|| ts.to_vec().stitch_triangulation())) {
                Ok(Ok(mp)) => {
                    let a = mp.unsigned_area();
                    obs.expect((a - want).abs() <= 1e-9 * want.abs() + 1e-12 * s * s, &format!("stitch({name})|area{class}"), || format!("stitched area {a} vs {want}; {:?}; {}", mp, ctx()));
                    obs.expect(mp.0.iter().all(|p| p.exterior().is_closed() && p.interiors().iter().all(|h| h.is_closed())), &format!("stitch({name})|ring-not-closed"), || ctx());
                }
                Ok(Err(e)) => {
                    obs.label(format!("stitch-error:{name}"));
                    let _ = e;
                }
                Err(p) => obs.fail(format!("stitch({name})|panic|{}", p.site()), format!("{} {}", p, ctx())),
            }
        };

        // ---- per polygon: earcut
        if let Geometry::Polygon(gp) = &gg {
            let p = &polys[0];
            if !rings_touch(p) {
                match guard(std::panic::AssertUnwindSafe(|| gp.earcut_triangles())) {
                    Ok(ts) => {
                        if let Some(rings) = tri_rings("earcut", &ts, obs) {
                            // input class for the known-findings matcher: three or more holes (the ear-cut dependency bridges
                            // holes to the shell one after the other and can then cut across an earlier bridge)
                            let name = if p.holes.len() >= 3 { "earcut[holes>=3]" } else { "earcut" };
                            check_tiling(name, &c.g, &rings, obs, &ctx);
                        }
                        stitch_check("earcut", &ts, want_area, obs);
                        // the same polygon with one vertex stored twice (valid: repeated points are allowed) is the same region
                        {
                            let sel = crate::engine::splitmix64((p.ext.len() as u64 * 0x9E37 + p.holes.len() as u64 * 31).wrapping_add(p.ext[0].0 as u64));
                            let mut q = p.clone();
                            let k = (sel as usize) % (q.ext.len() - 1);
                            let v = q.ext[k];
                            q.ext.insert(k, v);
                            if let geo::Geometry::Polygon(gq) = to_geo(&G::Polygon(q), &c.xf) {
                                match guard(std::panic::AssertUnwindSafe(|| gq.earcut_triangles())) {
                                    Ok(ts2) => {
                                        if let Some(rings2) = tri_rings("earcut[repeated-vertex]", &ts2, obs) {
                                            let name = if p.holes.len() >= 3 { "earcut[holes>=3]" } else { "earcut[repeated-vertex]" };
                                            check_tiling(name, &c.g, &rings2, obs, &ctx);
                                        }
                                    }
                                    Err(pn) => obs.fail(format!("earcut[repeated-vertex]|panic|{}", pn.site()), format!("{} {}", pn, ctx())),
                                }
                            }
                        }
                        // the iterator and raw forms describe the same triangles
                        if let Ok((it, raw)) = guard(std::panic::AssertUnwindSafe(|| (gp.earcut_triangles_iter().collect::<Vec<_>>(), gp.earcut_triangles_raw()))) {
                            obs.expect(it == ts, "earcut|iter-differs", || ctx());
                            let v = |i: usize| geo::Coord { x: raw.vertices[2 * i], y: raw.vertices[2 * i + 1] };
                            let ok = raw.vertices.len() % 2 == 0
                                && raw.triangle_indices.len() == 3 * ts.len()
                                && raw.triangle_indices.iter().all(|i| 2 * i + 1 < raw.vertices.len())
                                && {
                                    // (the iterator pops from the back of the index list: same triangles, other order)
                                    let key = |t: [geo::Coord<f64>; 3]| { let mut a = t.map(|c| (c.x.to_bits(), c.y.to_bits())); a.sort(); a };
                                    let mut x: Vec<_> = raw.triangle_indices.chunks(3).map(|ix| key([v(ix[0]), v(ix[1]), v(ix[2])])).collect();
                                    let mut y: Vec<_> = ts.iter().map(|t| key(t.to_array())).collect();
                                    x.sort();
                                    y.sort();
                                    x == y
                                };
                            obs.expect(ok, "earcut|raw-differs", || format!("raw {:?} vs {:?}; {}", raw.triangle_indices, ts, ctx()));
                        }
                    }
                    Err(pn) => obs.fail(format!("earcut|panic|{}", pn.site()), format!("{} {}", pn, ctx())),
                }
            } else {
                obs.label("earcut-skipped:rings-touch");
            }
        }
        // ---- Delaunay variants (Polygon and MultiPolygon)
        let hull_pts = hull(&c.g.coords());
        let hull_ring: Vec<C> = hull_pts.iter().cloned().chain(std::iter::once(hull_pts[0])).collect();
        let hull_region = G::Polygon(Poly::new(hull_ring, vec![]));
        let variants: [(&str, bool); 3] = [("constrained", false), ("constrained_outer", true), ("unconstrained", true)];
        for (name, hull_target) in variants.iter() {
            let r = guard(std::panic::AssertUnwindSafe(|| match (&gg, *name) {
                (Geometry::Polygon(p), "constrained") => p.constrained_triangulation(DelaunayTriangulationConfig { snap_radius: config.snap_radius }),
                (Geometry::Polygon(p), "constrained_outer") => p.constrained_outer_triangulation(DelaunayTriangulationConfig { snap_radius: config.snap_radius }),
                (Geometry::Polygon(p), _) => p.unconstrained_triangulation(),
                (Geometry::MultiPolygon(p), "constrained") => p.constrained_triangulation(DelaunayTriangulationConfig { snap_radius: config.snap_radius }),
                (Geometry::MultiPolygon(p), "constrained_outer") => p.constrained_outer_triangulation(DelaunayTriangulationConfig { snap_radius: config.snap_radius }),
                (Geometry::MultiPolygon(p), _) => p.unconstrained_triangulation(),
                _ => unreachable!(),
            }));
            // the deprecated TriangulateSpade trait and the Vec<Polygon> / &[Polygon] receivers triangulate the same region
            if let Ok(Ok(ts)) = &r {
                #[allow(deprecated)]
                let alt = guard(std::panic::AssertUnwindSafe(|| {
                    let cfg = || geo::triangulate_spade::SpadeTriangulationConfig { snap_radius: config.snap_radius };
                    use geo::triangulate_spade as ts_old;
                    let members: Vec<Polygon<f64>> = match &gg { Geometry::Polygon(p) => vec![p.clone()], Geometry::MultiPolygon(mp) => mp.0.clone(), _ => vec![] };
                    let old = match (&gg, *name) {
                        (Geometry::Polygon(p), "constrained") => ts_old::TriangulateSpade::constrained_triangulation(p, cfg()),
                        (Geometry::Polygon(p), "constrained_outer") => ts_old::TriangulateSpade::constrained_outer_triangulation(p, cfg()),
                        (Geometry::Polygon(p), _) => ts_old::TriangulateSpade::unconstrained_triangulation(p),
                        (Geometry::MultiPolygon(p), "constrained") => ts_old::TriangulateSpade::constrained_triangulation(p, cfg()),
                        (Geometry::MultiPolygon(p), "constrained_outer") => ts_old::TriangulateSpade::constrained_outer_triangulation(p, cfg()),
                        (Geometry::MultiPolygon(p), _) => ts_old::TriangulateSpade::unconstrained_triangulation(p),
                        _ => unreachable!(),
                    };
                    let dcfg = || DelaunayTriangulationConfig { snap_radius: config.snap_radius };
                    let (vecr, slicer) = match *name {
                        "constrained" => (members.clone().constrained_triangulation(dcfg()), members.as_slice().constrained_triangulation(dcfg())),
                        "constrained_outer" => (members.clone().constrained_outer_triangulation(dcfg()), members.as_slice().constrained_outer_triangulation(dcfg())),
                        _ => (members.clone().unconstrained_triangulation(), members.as_slice().unconstrained_triangulation()),
                    };
                    (old.ok(), vecr.ok(), slicer.ok())
                }));
                match alt {
                    Ok((old, vecr, slicer)) => {
                        let area = |v: &Vec<Triangle<f64>>| -> f64 { v.iter().map(|t| t.unsigned_area()).sum() };
                        let a0 = area(ts);
                        let tol = 1e-9 * a0.abs() + 1e-12;
                        for (what, other) in [("deprecated-TriangulateSpade", &old), ("Vec<Polygon>", &vecr), ("&[Polygon]", &slicer)] {
                            match other {
                                Some(o) => obs.expect(o.len() == ts.len() && (area(o) - a0).abs() <= tol, &format!("{name}:{tn}|{what}-differs"), || format!("{} triangles of area {} vs {} of area {a0}; {}", o.len(), area(o), ts.len(), ctx())),
                                None => obs.fail(format!("{name}:{tn}|{what}-errs"), ctx()),
                            }
                        }
                    }
                    Err(pn) => obs.fail(format!("{name}:{tn}|alt-receiver-panic|{}", pn.site()), format!("{} {}", pn, ctx())),
                }
            }
            match r {
                Ok(Ok(ts)) => {
                    if let Some(rings) = tri_rings(name, &ts, obs) {
                        let region = if *hull_target { &hull_region } else { &c.g };
                        check_tiling(&format!("{name}:{tn}"), region, &rings, obs, &ctx);
                    }
                    if !*hull_target {
                        stitch_check(name, &ts, want_area, obs);
                    }
                }
                Ok(Err(e)) => {
                    obs.label(format!("triangulation-error:{name}"));
                    let _ = e;
                }
                Err(pn) => obs.fail(format!("{name}:{tn}|panic|{}", pn.site()), format!("{} {}", pn, ctx())),
            }
        }
        // ---- monotone subdivision
        // input class for the known-findings matcher: a vertex of one ring lies strictly inside an edge of another ring (of the
        // same polygon or of another member): the sweep splits that edge while a merge may be pending on it
        let mono_cls = {
            let rings: Vec<&Vec<C>> = polys.iter().flat_map(|p| p.rings()).collect();
            let touch = rings.iter().enumerate().any(|(i, r)| r[..r.len().saturating_sub(1)].iter().any(|v| {
                rings.iter().enumerate().any(|(j, q)| i != j && q.windows(2).any(|w| *v != w[0] && *v != w[1] && on_segment_int(w[0], w[1], *v)))
            }));
            // ... and, narrower, by the mechanism: when the sweep splits the touched edge E at the touching vertex t, the new
            // right half inherits a COPY of E's bookkeeping (helper chain, pending help). That bookkeeping is only there if some
            // vertex was processed with E as the edge directly below it, i.e. some vertex v with left(E) <= v < t in sweep order
            // (x, then y, in the frame the sweep sees) lies strictly above the line of E. Without such a vertex the copy is
            // harmless and a failure is not the recorded finding. (A superset of the trigger: edges between v and E are ignored.)
            let frame = |v: &C| c.xf.d4(*v);
            let all_vertices: Vec<C> = rings.iter().flat_map(|r| r[..r.len().saturating_sub(1)].iter().map(frame)).collect();
            let mut stale = false;
            for (i, r) in rings.iter().enumerate() {
                for v in &r[..r.len().saturating_sub(1)] {
                    for (j, q) in rings.iter().enumerate() {
                        if i == j {
                            continue;
                        }
                        for w in q.windows(2) {
                            if *v != w[0] && *v != w[1] && on_segment_int(w[0], w[1], *v) {
                                let (t, e0, e1) = (frame(v), frame(&w[0]), frame(&w[1]));
                                let (el, er) = if e0 <= e1 { (e0, e1) } else { (e1, e0) };
                                if el.0 == er.0 {
                                    continue; // vertical in the sweep frame
                                }
                                if all_vertices.iter().any(|u| el <= *u && *u < t && cross_int(el, er, *u) > 0) {
                                    stale = true;
                                }
                            }
                        }
                    }
                }
            }
            if !touch { "" } else if stale { "[ring-vertex-inside-an-edge-of-another-ring|a-vertex-above-that-edge-before-the-touch]" } else { "[ring-vertex-inside-an-edge-of-another-ring]" }
        };
        if !mono_cls.is_empty() {
            obs.label("monotone:ring-vertex-inside-an-edge-of-another-ring");
            if mono_cls.contains("a-vertex-above-that-edge") {
                obs.label("monotone:touched-edge-carries-bookkeeping");
            }
        }
        let mono = guard(std::panic::AssertUnwindSafe(|| match &gg {
            Geometry::Polygon(p) => MonotonicPolygons::from(p.clone()),
            Geometry::MultiPolygon(p) => MonotonicPolygons::from(p.clone()),
            _ => unreachable!(),
        }));
        match mono {
            Ok(mp) => {
                let mut rings: Vec<Vec<C>> = vec![];
                let mut ok = true;
                for piece in mp.subdivisions() {
                    let (top, bot) = (piece.top(), piece.bot());
                    let mono_ok = top.0.windows(2).all(|w| w[0].x <= w[1].x) && bot.0.windows(2).all(|w| w[0].x <= w[1].x) && top.0.first() == bot.0.first() && top.0.last() == bot.0.last();
                    obs.expect(mono_ok, &format!("monotone{mono_cls}|piece-not-x-monotone"), || format!("top {:?} bot {:?}; {}", top.0, bot.0, ctx()));
                    let poly: Polygon<f64> = piece.clone().into_polygon();
                    let mut ring = vec![];
                    for q in &poly.exterior().0 {
                        match lookup(*q) {
                            Some(v) => ring.push(v),
                            None => {
                                obs.fail(format!("monotone{mono_cls}|corner-not-a-polygon-vertex"), format!("{:?}; {}", q, ctx()));
                                ok = false;
                            }
                        }
                    }
                    rings.push(ring);
                }
                if ok {
                    check_tiling(&format!("monotone{mono_cls}:{tn}"), &c.g, &rings, obs, &ctx);
                }
                // the free function gives the same pieces; each piece locates points like the polygon it converts into
                {
                    let members: Vec<Polygon<f64>> = match &gg { Geometry::Polygon(p) => vec![p.clone()], Geometry::MultiPolygon(m) => m.0.clone(), _ => vec![] };
                    if let Ok(pieces) = guard(std::panic::AssertUnwindSafe(|| geo::algorithm::monotone::monotone_subdivision(members))) {
                        let a: Vec<Polygon<f64>> = pieces.iter().map(|m| m.clone().into_polygon()).collect();
                        let b: Vec<Polygon<f64>> = mp.subdivisions().iter().map(|m| m.clone().into_polygon()).collect();
                        obs.expect(a == b, "monotone|free-function-differs", || format!("{:?} vs {:?}; {}", a, b, ctx()));
                    }
                }
                // point location through the subdivision
                let loc = Located::new(&c.g);
                if let Some(((x0, y0), (x1, y1))) = c.g.bbox() {
                    let (w, h) = (x1 - x0 + 3, y1 - y0 + 3);
                    let total = w * h;
                    let stride = ((total + 399) / 400).max(1);
                    let mut i = 0;
                    while i < total {
                        let q = (x0 - 1 + i % w, y0 - 1 + i / w);
                        i += stride;
                        let want = loc.locate(HP::int(q)) != Loc::E;
                        let got = mp.intersects(&c.xf.apply(q));
                        obs.cmp();
                        if got != want {
                            obs.fail(format!("monotone{mono_cls}|intersects(coord)|got={got},want={want}"), format!("q={:?}; {}", q, ctx()));
                            break;
                        }
                    }
                }
            }
            Err(pn) => {
                // (the kind of panic is part of the key: an unwrap of a chain that is no longer there is the repaired defect)
                let kind = if pn.msg.contains("chains must finish") { "chains-must-finish" } else if pn.msg.contains("Option::unwrap") { "unwrap-none" } else { "other" };
                obs.fail(format!("monotone{mono_cls}:{tn}|panic|{}|{kind}", pn.site()), format!("{} {}", pn, ctx()))
            }
        }
        let _ = MultiPolygon::<f64>::new(vec![]);
    }
}
