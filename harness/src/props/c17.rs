//! C17 — PreparedGeometry answers exactly like the plain geometry, over
//! histories that reuse one prepared geometry in varying positions.
use crate::conv::{matrix_of, to_geo, wkt, Xf};
use crate::engine::{guard, Obs, Property, Tier};
use crate::gen::{scene_strategy, xf_strategy, Scene};
use crate::refgeom::de9im::de9im_info;
use crate::refgeom::validity::in_relate_domain;
use crate::refgeom::{Matrix, Poly, G};
use crate::with_concrete;
use geo::relate::PreparedGeometry;
use geo::{Geometry, Relate};
use proptest::prelude::*;
use serde::{Deserialize, Serialize};
use serde_json::{json, Value};
use std::collections::HashMap;

/// one step of a history: partner index, operand position / mode, repeat count
#[derive(Clone, Debug, Serialize, Deserialize)]
pub struct Step {
    pub partner: u8,
    /// 0: P.relate(q)  1: q.relate(P)  2: P.relate(prep(q))  3: prep(q).relate(P)
    /// 4: P.relate(P)  5: clone(P).relate(q)  6: q.relate(clone(P))
    pub mode: u8,
    pub reps: u8,
}

#[derive(Clone, Debug, Serialize, Deserialize)]
pub struct Case {
    pub p: G,
    pub partners: Vec<G>,
    pub steps: Vec<Step>,
    pub xf: Xf,
    /// prepare the concrete type (true) or the Geometry enum (false)
    pub concrete: bool,
    /// wrap P (bit 0) and / or the partners (bit 1) into a mixed-dimension GeometryCollection together with
    /// an extra point: outside the C01 oracle's domain, compared differentially (prepared vs plain) only
    #[serde(default)]
    pub mix: Option<(u8, i8, i8)>,
    #[serde(skip)]
    pub trusted: bool,
}

pub struct C17;

fn run_history<PG>(prep: &PG, c: &Case, gp: &Geometry<f64>, gqs: &[Geometry<f64>], obs: &mut Obs)
where
    PG: Relate<f64> + Clone,
{
    let p_dom = in_relate_domain(&c.p);
    let q_dom: Vec<bool> = c.partners.iter().map(in_relate_domain).collect();
    let mut seen: HashMap<(usize, u8), Matrix> = HashMap::new();
    let mut uses_first = false;
    let mut uses_second = false;
    let mut intersecting_partners = std::collections::HashSet::new();
    for (si, st) in c.steps.iter().enumerate() {
        let qi = (st.partner as usize * gqs.len()) >> 8;
        let q = &gqs[qi];
        let mode = st.mode % 7;
        for rep in 0..(1 + st.reps % 3) {
            let (got, plain, want) = match mode {
                0 => (matrix_of(&prep.relate(q)), matrix_of(&gp.relate(q)), de9im_info(&c.p, &c.partners[qi]).0),
                1 => (matrix_of(&q.relate(prep)), matrix_of(&q.relate(gp)), de9im_info(&c.partners[qi], &c.p).0),
                2 => {
                    let pq = PreparedGeometry::from(q);
                    (matrix_of(&prep.relate(&pq)), matrix_of(&gp.relate(q)), de9im_info(&c.p, &c.partners[qi]).0)
                }
                3 => {
                    let pq = PreparedGeometry::from(q);
                    (matrix_of(&pq.relate(prep)), matrix_of(&q.relate(gp)), de9im_info(&c.partners[qi], &c.p).0)
                }
                4 => (matrix_of(&prep.relate(prep)), matrix_of(&gp.relate(gp)), de9im_info(&c.p, &c.p).0),
                5 => {
                    let cl = prep.clone();
                    (matrix_of(&cl.relate(q)), matrix_of(&gp.relate(q)), de9im_info(&c.p, &c.partners[qi]).0)
                }
                _ => {
                    let cl = prep.clone();
                    (matrix_of(&q.relate(&cl)), matrix_of(&q.relate(gp)), de9im_info(&c.partners[qi], &c.p).0)
                }
            };
            match mode {
                0 | 2 | 5 => uses_first = true,
                1 | 3 | 6 => uses_second = true,
                _ => {
                    uses_first = true;
                    uses_second = true
                }
            }
            if want.intersects() && mode != 4 {
                intersecting_partners.insert(qi);
            }
            obs.cmp();
            let ctx = || {
                format!(
                    "step {si} rep {rep} mode {mode}: P={} Q={} xf={:?} history={:?}",
                    wkt(&c.p),
                    wkt(&c.partners[qi]),
                    c.xf,
                    c.steps
                )
            };
            if got != plain {
                obs.fail(
                    format!("prepared-relate|mode{mode}|differs-from-plain"),
                    format!("prepared {} vs plain {} (true {}); {}", got.to_string9(), plain.to_string9(), want.to_string9(), ctx()),
                );
            }
            obs.cmp();
            if got != want && p_dom && (mode == 4 || q_dom[qi]) {
                obs.fail(
                    format!("prepared-relate|mode{mode}|differs-from-oracle"),
                    format!("prepared {} vs true {} (plain {}); {}", got.to_string9(), want.to_string9(), plain.to_string9(), ctx()),
                );
            }
            let key = (if mode == 4 { usize::MAX } else { qi }, mode);
            if let Some(prev) = seen.get(&key) {
                obs.cmp();
                if *prev != got {
                    obs.fail(
                        format!("prepared-relate|mode{mode}|changed-on-reuse"),
                        format!("earlier {} now {}; {}", prev.to_string9(), got.to_string9(), ctx()),
                    );
                }
            } else {
                seen.insert(key, got);
            }
        }
    }
    let nsteps: usize = c.steps.iter().map(|s| 1 + (s.reps % 3) as usize).sum();
    if nsteps >= 3 && uses_first && uses_second && intersecting_partners.len() >= 2 {
        obs.nontrivial();
    }
    if uses_first && uses_second {
        obs.label("both-positions");
    }
    obs.label(format!("partners-intersecting:{}", intersecting_partners.len().min(3)));
}

/// wrap operands into mixed-dimension collections with an extra point (see `Case::mix`)
fn apply_mix(c: &mut Case) {
    if let Some((which, x, y)) = c.mix {
        let pt = G::Point((x as i64, y as i64));
        if which & 4 == 4 {
            // degenerate P (differential only): a ring split into two open line strings that chain into a loop (members of
            // a collection touching at their end points), or a Rect collapsed to a segment
            let ring: Option<Vec<crate::exact::C>> = match &c.p {
                G::LineString(v) if v.len() >= 4 && v.first() == v.last() => Some(v.clone()),
                G::Polygon(p) if p.ext.len() >= 4 => Some(p.ext.clone()),
                G::MultiPolygon(v) if !v.is_empty() && v[0].ext.len() >= 4 => Some(v[0].ext.clone()),
                _ => None,
            };
            c.p = match (ring, c.p.bbox()) {
                (Some(r), _) => {
                    let cut = 1 + (x.unsigned_abs() as usize) % (r.len() - 2);
                    G::Coll(vec![G::LineString(r[..=cut].to_vec()), G::LineString(r[cut..].to_vec())])
                }
                (None, Some(((x0, y0), (x1, y1)))) => if y & 1 == 0 { G::Rect((x0, y0), (x1, y0)) } else { G::Rect((x0, y0), (x0, y1)) },
                (None, None) => c.p.clone(),
            };
        }
        if which & 1 == 1 && !matches!(c.p, G::Coll(_)) {
            c.p = G::Coll(vec![c.p.clone(), pt.clone()]);
        }
        if which & 2 == 2 {
            for q in c.partners.iter_mut() {
                if !matches!(q, G::Coll(_)) {
                    *q = G::Coll(vec![pt.clone(), q.clone()]);
                }
            }
        }
    }
}

impl Property for C17 {
    type Case = Case;
    const ID: &'static str = "C17";
    fn strategy(tier: Tier) -> BoxedStrategy<Case> {
        let maxp = tier.pick(4, 6);
        let maxs = tier.pick(8usize, 12usize);
        // 1 scene in 8 from a template: a polygon whose hole touches the shell in the MIDDLE of a shell edge (the touch vertex at a
        // varying position of the hole ring), or two multipolygon members touching that way, with partners that run through the
        // touch point (from outside the shell into the hole, along the touched edge, ending there) - self-noding adds a boundary
        // node there that exists in no ring's vertex list of the touched ring
        let template = (2i64..7, 1i64..4, 1i64..4, 0usize..3, any::<bool>(), proptest::collection::vec((-3i64..4, -3i64..4, 0u8..4), 1..4)).prop_map(|(t, w, h, rot, multi, ps)| {
            let shell = vec![(0, 0), (8, 0), (8, 8), (0, 8), (0, 0)];
            // hole (or second member, below the edge): a triangle with one vertex at (t, 0)
            let mut tri = vec![(t, 0), ((t + w).min(7), h + 1), ((t - w).max(1), h + 1)];
            if multi {
                tri = vec![(t, 0), (t - w, -h - 1), (t + w, -h - 1)];
            }
            tri.rotate_left(rot % 3);
            let first = tri[0];
            tri.push(first);
            let a = if multi { G::MultiPolygon(vec![Poly::new(shell, vec![]), Poly::new(tri, vec![])]) } else { G::Polygon(Poly::new(shell, vec![tri])) };
            let partners: Vec<G> = ps
                .iter()
                .map(|(dx, dy, k)| {
                    let d = if (*dx, *dy) == (0, 0) { (0, 1) } else { (*dx, *dy) };
                    match k {
                        0 => G::Line((t - d.0, -d.1), (t + d.0, d.1)),
                        1 => G::LineString(vec![(t - d.0, -d.1.abs() - 1), (t, 0), (t + d.1, d.0.abs() + 1)]),
                        2 => G::Line((t, 0), (t + d.0, d.1)),
                        _ => G::LineString(vec![(t - 2, 0), (t + 1, 0), (t + 1, d.1)]),
                    }
                })
                .filter(|g| in_relate_domain(g))
                .collect();
            Scene { a, partners }
        });
        (
            prop_oneof![7 => scene_strategy(maxp).boxed(), 1 => template.prop_filter("no partner", |s| !s.partners.is_empty()).boxed()],
            proptest::collection::vec((any::<u8>(), 0u8..7, 0u8..3).prop_map(|(partner, mode, reps)| Step { partner, mode, reps }), 1..=maxs),
            xf_strategy(),
            any::<bool>(),
            proptest::option::weighted(0.25, (1u8..8, -3i8..16, -3i8..16)),
        )
            .prop_map(|(Scene { a, partners }, steps, xf, concrete, mix)| {
                let mut c = Case { p: a, partners, steps, xf, concrete, mix, trusted: true };
                apply_mix(&mut c);
                c
            })
            .boxed()
    }
    fn quota(tier: Tier) -> u64 {
        tier.pick(500_000, 10_000_000)
    }
    fn rule() -> String {
        "Histories: one geometry P (any type, same scene generator as C01) is prepared once (concrete type or Geometry enum); \
         then 1-12 steps each choosing a coincidence-biased partner, an operand position / mode (P first, P second, partner \
         prepared too, P with itself, clone of the prepared value in either position) and a repeat count. After every call the \
         prepared result is compared with plain relate on the same operands, with the exact oracle matrix, and with the result \
         the same (partner, mode) gave earlier in the history. Non-trivial = >= 3 calls, P used in both positions, >= 2 \
         partners that really intersect P. One scene in 8 is a template: a hole (or a second member) touching the shell in the \
         middle of an edge, with partners running through the touch point."
            .into()
    }
    fn assumptions() -> Vec<String> {
        vec!["single-threaded use of one PreparedGeometry (it holds Rc state and is not Send)".into()]
    }
    fn must_hit() -> Vec<&'static str> {
        vec!["both-positions", "partners-intersecting:2", "mixed-dimension-collection"]
    }
    fn show(c: &Case) -> Value {
        json!({"p": wkt(&c.p), "partners": c.partners.iter().map(wkt).collect::<Vec<_>>(), "steps": c.steps, "xf": c.xf, "concrete": c.concrete})
    }
    fn check(c: &Case, obs: &mut Obs) {
        if c.partners.is_empty() || c.steps.is_empty() {
            obs.label("skipped:empty-history");
            return;
        }
        if c.mix.is_none() && !c.trusted && !(in_relate_domain(&c.p) && c.partners.iter().all(in_relate_domain)) {
            obs.label("skipped:out-of-domain");
            return;
        }
        if c.mix.is_some() {
            // replayed / fuzzed cases: members must still be individually valid
            let member_ok = |g: &G| match g { G::Coll(v) => v.iter().all(in_relate_domain), g => in_relate_domain(g) };
            if !c.trusted && !(member_ok(&c.p) && c.partners.iter().all(member_ok)) {
                obs.label("skipped:out-of-domain");
                return;
            }
            obs.label("mixed-dimension-collection");
        }
        obs.label(format!("prepared-type:{}", c.p.type_name()));
        let gp = to_geo(&c.p, &c.xf);
        let gqs: Vec<Geometry<f64>> = c.partners.iter().map(|q| to_geo(q, &c.xf)).collect();
        // the owning constructor, the accessors, and a prepared partner of concrete type
        let extra = guard(std::panic::AssertUnwindSafe(|| {
            let mut o = Obs::new();
            let owned: PreparedGeometry<'static, Geometry<f64>, f64> = PreparedGeometry::from(gp.clone());
            o.expect(owned.geometry() == &gp, "prepared|geometry()-differs", || format!("P={}", wkt(&c.p)));
            let q = &gqs[0];
            let plain = matrix_of(&gp.relate(q));
            let via_owned = matrix_of(&owned.relate(q));
            o.expect(via_owned == plain, "prepared-relate|owned-differs-from-plain", || format!("{} vs {}; P={} Q={}", via_owned.to_string9(), plain.to_string9(), wkt(&c.p), wkt(&c.partners[0])));
            let via_conc = with_concrete!(q, qc => { let pq = PreparedGeometry::from(qc); (matrix_of(&gp.relate(&pq)), matrix_of(&owned.relate(&pq))) });
            o.expect(via_conc.0 == plain && via_conc.1 == plain, "prepared-relate|concrete-prepared-partner-differs", || format!("{} / {} vs {}; P={} Q={}", via_conc.0.to_string9(), via_conc.1.to_string9(), plain.to_string9(), wkt(&c.p), wkt(&c.partners[0])));
            o.expect(owned.into_geometry() == gp, "prepared|into_geometry()-differs", || format!("P={}", wkt(&c.p)));
            o
        }));
        match extra {
            Ok(o) => {
                obs.comparisons += o.comparisons;
                obs.failures.extend(o.failures);
            }
            Err(p) => obs.fail(format!("prepared-relate|panic|{}", p.site()), format!("{} P={} partners={:?}", p, wkt(&c.p), c.partners.iter().map(wkt).collect::<Vec<_>>())),
        }
        let r = guard(std::panic::AssertUnwindSafe(|| {
            let mut o = Obs::new();
            if c.concrete {
                with_concrete!(&gp, p => { let prep = PreparedGeometry::from(p); run_history(&prep, c, &gp, &gqs, &mut o) });
            } else {
                let prep = PreparedGeometry::from(&gp);
                run_history(&prep, c, &gp, &gqs, &mut o);
            }
            o
        }));
        match r {
            Ok(o) => {
                obs.nontrivial |= o.nontrivial;
                obs.comparisons += o.comparisons;
                for l in o.labels {
                    obs.label(l);
                }
                obs.failures.extend(o.failures);
            }
            Err(p) => obs.fail(format!("prepared-relate|panic|{}", p.site()), format!("{} P={} partners={:?}", p, wkt(&c.p), c.partners.iter().map(wkt).collect::<Vec<_>>())),
        }
    }
}
