//! C02 — Intersects / Contains / Within / coordinate_position agree with DE-9IM.
use crate::conv::{to_geo, wkt, Xf};
use crate::engine::{guard, Obs, Property, Tier};
use crate::gen::{pair_strategy, xf_strategy, Pair};
use crate::props::c01::{bbox_class, coincidence_labels};
use crate::refgeom::de9im::de9im_info;
use crate::refgeom::validity::in_relate_domain;
use crate::refgeom::{Loc, Located, G};
use crate::{with_concrete, with_concrete_only};
use geo::coordinate_position::{CoordPos, CoordinatePosition};
use geo::{Contains, Coord, Geometry, Intersects, Within};
use proptest::prelude::*;
use serde::{Deserialize, Serialize};
use serde_json::{json, Value};

#[derive(Clone, Debug, Serialize, Deserialize)]
pub struct Case {
    pub a: G,
    pub b: G,
    pub xf: Xf,
    #[serde(skip)]
    pub trusted: bool,
}

pub struct C02;

fn pos_name(p: CoordPos) -> &'static str {
    match p {
        CoordPos::Inside => "Inside",
        CoordPos::OnBoundary => "OnBoundary",
        CoordPos::Outside => "Outside",
    }
}
fn loc_pos(l: Loc) -> CoordPos {
    match l {
        Loc::I => CoordPos::Inside,
        Loc::B => CoordPos::OnBoundary,
        Loc::E => CoordPos::Outside,
    }
}

fn as_coord(g: &Geometry<f64>) -> Option<Coord<f64>> {
    match g {
        Geometry::Point(p) => Some(p.0),
        _ => None,
    }
}

macro_rules! try_bool {
    ($obs:expr, $key:expr, $ctx:expr, $e:expr) => {
        match guard(std::panic::AssertUnwindSafe(|| $e)) {
            Ok(v) => Some(v),
            Err(p) => {
                $obs.fail(format!("{}|panic|{}", $key, p.site()), format!("{} {}", p, $ctx()));
                None
            }
        }
    };
}

impl Property for C02 {
    type Case = Case;
    const ID: &'static str = "C02";

    fn strategy(_tier: Tier) -> BoxedStrategy<Case> {
        // 1 case in 12: a closed line string / polygon ring with runs of collinear vertices, started at any vertex and in either
        // direction, against a line (string) lying along one of its sides with end points on vertices or half-way between them
        let run_pair = (2i64..6, 2i64..5, any::<u8>(), any::<bool>(), 0u8..4, (0u8..40, 0u8..40), any::<bool>(), 0u8..3).prop_map(|(w, h, rot, rev, side, (u, v), as_poly, bkind)| {
            // rectangle [0,4w] x [0,4h] with a vertex every 4 units
            let mut open: Vec<crate::exact::C> = vec![];
            for i in 0..w { open.push((4 * i, 0)); }
            for j in 0..h { open.push((4 * w, 4 * j)); }
            for i in 0..w { open.push((4 * (w - i), 4 * h)); }
            for j in 0..h { open.push((0, 4 * (h - j))); }
            let n = open.len();
            open.rotate_left(rot as usize % n);
            if rev { open.reverse(); }
            let f = open[0];
            open.push(f);
            let a = if as_poly { G::Polygon(crate::refgeom::Poly::new(open, vec![])) } else { G::LineString(open) };
            // two positions (multiples of 2: vertices and mid points) along the chosen side
            let len = if side % 2 == 0 { 4 * w } else { 4 * h };
            let (p, q) = ((u as i64 * 2) % (len + 1), (v as i64 * 2) % (len + 1));
            let at = |t: i64| match side { 0 => (t, 0), 1 => (4 * w, t), 2 => (t, 4 * h), _ => (0, t) };
            let b = match bkind {
                0 => G::Line(at(p), at(q)),
                1 => G::LineString(vec![at(p), at(q)]),
                _ => G::LineString(vec![at(p), at((p + q) / 4 * 2), at(q)]),
            };
            Pair { a, b }
        }).prop_filter("degenerate partner", |p| in_relate_domain(&p.a) && in_relate_domain(&p.b));
        (prop_oneof![11 => pair_strategy().boxed(), 1 => run_pair.boxed()], xf_strategy()).prop_map(|(Pair { a, b }, xf)| Case { a, b, xf, trusted: true }).boxed()
    }
    fn quota(tier: Tier) -> u64 {
        tier.pick(1_000_000, 20_000_000)
    }
    fn rule() -> String {
        "Same pair generator as C01 (all 10 types + collections, coincidence-biased lattice scenes, integer matrix, exact \
         similarity). For every ordered pair the concrete-type and Geometry-enum impls of intersects (both orders), contains, \
         is_within (plus the Coord forms when B is a Point) are compared with the documented masks on the exact oracle matrix; \
         coordinate_position(A, q) and (B, q) is compared with exact by-definition point location for every lattice point q of \
         the operand's bounding box grown by one (at most 200 per operand). Non-trivial = envelopes intersect and the operands \
         share a node or sub-segment of the joint arrangement. Distinct = distinct serialised case."
            .into()
    }
    fn assumptions() -> Vec<String> {
        vec![
            "inputs are exact similarity images of small-integer lattice geometries".into(),
            "mask semantics taken from the trait documentation: intersects = not FF*FF****, contains = T*****FF*, within = T*F**F***".into(),
        ]
    }
    fn must_hit() -> Vec<&'static str> {
        vec![
            "q:on-vertical-edge",
            "q:on-horizontal-edge",
            "q:on-vertex",
            "co:endpoint-degree-2",
            "co:endpoint-degree-3",
            "closed-linestring",
            "co:hole-tangent",
            "multipoint-partly-on-boundary",
        ]
    }
    fn show(c: &Case) -> Value {
        json!({"a": wkt(&c.a), "b": wkt(&c.b), "xf": c.xf})
    }

    fn check(c: &Case, obs: &mut Obs) {
        if !c.trusted && !(in_relate_domain(&c.a) && in_relate_domain(&c.b)) {
            obs.label("skipped:out-of-domain");
            return;
        }
        let (m, info) = de9im_info(&c.a, &c.b);
        let (ta, tb) = (c.a.type_name(), c.b.type_name());
        obs.label(format!("tp:{ta}/{tb}"));
        coincidence_labels(&c.a, &c.b, &info, obs);
        if bbox_class(&c.a, &c.b) != "bbox:disjoint" && info.touching {
            obs.nontrivial();
        }
        let ga = to_geo(&c.a, &c.xf);
        let gb = to_geo(&c.b, &c.xf);
        let ctx = || format!("A={} B={} xf={:?} true DE-9IM(A,B)={}", wkt(&c.a), wkt(&c.b), c.xf, m.to_string9());
        let mt = m.transpose();
        // multipoint partly on a boundary
        if let G::MultiPoint(ps) = &c.b {
            let la = Located::new(&c.a);
            let locs: Vec<Loc> = ps.iter().map(|p| la.locate(crate::exact::HP::int(*p))).collect();
            if locs.contains(&Loc::B) && locs.contains(&Loc::I) {
                obs.label("multipoint-partly-on-boundary");
            }
        }

        macro_rules! cmpb {
            ($key:expr, $got:expr, $want:expr) => {
                if let Some(got) = $got {
                    obs.cmp();
                    let want = $want;
                    if got != want {
                        obs.fail(format!("{}|got={},want={}", $key, got, want), format!("{}: got {} want {}; {}", $key, got, want, ctx()));
                    }
                }
            };
        }

        // concrete-type impls
        let k = format!("intersects:{ta}/{tb}");
        cmpb!(k, try_bool!(obs, k, ctx, with_concrete!(&ga, a => with_concrete!(&gb, b => a.intersects(b)))), m.intersects());
        let k = format!("intersects:{tb}/{ta}");
        cmpb!(k, try_bool!(obs, k, ctx, with_concrete!(&ga, a => with_concrete!(&gb, b => b.intersects(a)))), m.intersects());
        let k = format!("contains:{ta}/{tb}");
        cmpb!(k, try_bool!(obs, k, ctx, with_concrete!(&ga, a => with_concrete!(&gb, b => a.contains(b)))), m.contains());
        let k = format!("contains:{tb}/{ta}");
        cmpb!(k, try_bool!(obs, k, ctx, with_concrete!(&ga, a => with_concrete!(&gb, b => b.contains(a)))), mt.contains());
        let k = format!("within:{ta}/{tb}");
        cmpb!(k, try_bool!(obs, k, ctx, with_concrete!(&ga, a => with_concrete!(&gb, b => a.is_within(b)))), m.within());
        // Geometry enum impls
        let k = format!("intersects:Geometry[{ta}]/Geometry[{tb}]");
        cmpb!(k, try_bool!(obs, k, ctx, ga.intersects(&gb)), m.intersects());
        let k = format!("contains:Geometry[{ta}]/Geometry[{tb}]");
        cmpb!(k, try_bool!(obs, k, ctx, ga.contains(&gb)), m.contains());
        let k = format!("within:Geometry[{ta}]/Geometry[{tb}]");
        cmpb!(k, try_bool!(obs, k, ctx, ga.is_within(&gb)), m.within());
        // mixed concrete / enum
        let k = format!("intersects:{ta}/Geometry[{tb}]");
        cmpb!(k, try_bool!(obs, k, ctx, with_concrete!(&ga, a => a.intersects(&gb))), m.intersects());
        let k = format!("contains:{ta}/Geometry[{tb}]");
        cmpb!(k, try_bool!(obs, k, ctx, with_concrete_only!(&ga, [Point, Line, LineString, Polygon, MultiLineString, Rect, Triangle, GeometryCollection], a => a.contains(&gb), else m.contains())), m.contains());
        let k = format!("contains:Geometry[{ta}]/{tb}");
        cmpb!(k, try_bool!(obs, k, ctx, with_concrete!(&gb, b => ga.contains(b))), m.contains());
        let k = format!("intersects:Geometry[{ta}]/{tb}");
        cmpb!(k, try_bool!(obs, k, ctx, with_concrete!(&gb, b => ga.intersects(b))), m.intersects());
        let k = format!("within:{ta}/Geometry[{tb}]");
        cmpb!(k, try_bool!(obs, k, ctx, with_concrete!(&ga, a => a.is_within(&gb))), m.within());
        let k = format!("within:Geometry[{tb}]/{ta}");
        cmpb!(k, try_bool!(obs, k, ctx, with_concrete_only!(&ga, [Point, Line, LineString, Polygon, MultiLineString, Rect, Triangle, GeometryCollection], a => gb.is_within(a), else mt.within())), mt.within());
        // Coord forms
        if let Some(co) = as_coord(&gb) {
            let k = format!("intersects:Coord/Geometry[{ta}]");
            cmpb!(k, try_bool!(obs, k, ctx, co.intersects(&ga)), m.intersects());
            let k = format!("within:Coord/{ta}");
            cmpb!(k, try_bool!(obs, k, ctx, with_concrete_only!(&ga, [Point, Line, LineString, Polygon, MultiPoint, MultiPolygon, Rect, Triangle, GeometryCollection], a => co.is_within(a), else mt.within())), mt.within());
            if let Some(co2) = as_coord(&ga) {
                let k = "intersects:Coord/Coord".to_string();
                cmpb!(k, try_bool!(obs, k, ctx, co2.intersects(&co)), m.intersects());
                let k = "coordpos:Coord".to_string();
                cmpb!(k, try_bool!(obs, k, ctx, co2.coordinate_position(&co) == CoordPos::Inside), m.intersects());
                let k = "coordpos:Coord|never-boundary".to_string();
                cmpb!(k, try_bool!(obs, k, ctx, co2.coordinate_position(&co) != CoordPos::OnBoundary), true);
            }
            let k = format!("intersects:{ta}/Coord");
            cmpb!(k, try_bool!(obs, k, ctx, with_concrete!(&ga, a => a.intersects(&co))), m.intersects());
            let k = format!("intersects:Coord/{ta}");
            cmpb!(k, try_bool!(obs, k, ctx, with_concrete_only!(&ga, [Point, Line, LineString, Polygon, MultiPoint, Rect, Triangle, GeometryCollection], a => co.intersects(a), else m.intersects())), m.intersects());
            let k = format!("contains:{ta}/Coord");
            cmpb!(k, try_bool!(obs, k, ctx, with_concrete_only!(&ga, [Point, Line, LineString, Polygon, MultiPoint, MultiPolygon, Rect, Triangle, GeometryCollection], a => a.contains(&co), else m.contains())), m.contains());
            let k = format!("contains:Geometry[{ta}]/Coord");
            cmpb!(k, try_bool!(obs, k, ctx, ga.contains(&co)), m.contains());
        }

        // re-representations of the same point sets (ring start and direction, member order, wrappers): same answers
        for r in 0..4u64 {
            let sel = crate::engine::splitmix64(0x51ed27 ^ r ^ (c.a.coords().len() as u64 * 31 + c.b.coords().len() as u64));
            let (va, vb) = match r {
                0 => (crate::conv::variant(&c.a, sel), c.b.clone()),
                1 => (c.a.clone(), crate::conv::variant(&c.b, sel)),
                // representation noise: a repeated vertex, an empty member (still valid, same point set)
                2 => (crate::conv::noisy(&c.a, sel), c.b.clone()),
                _ => (c.a.clone(), crate::conv::noisy(&c.b, sel)),
            };
            if r >= 2 {
                if va == c.a && vb == c.b {
                    continue;
                }
                obs.label("variant:noise");
            }
            if !(in_relate_domain(&crate::conv::denoise(&va)) && in_relate_domain(&crate::conv::denoise(&vb))) {
                continue;
            }
            let (gva, gvb) = (to_geo(&va, &c.xf), to_geo(&vb, &c.xf));
            let (tva, tvb) = (va.type_name(), vb.type_name());
            let ctx = || format!("A'={} B'={} xf={:?} true DE-9IM={}", wkt(&va), wkt(&vb), c.xf, m.to_string9());
            let k = format!("intersects:{tva}/{tvb}");
            cmpb!(k, try_bool!(obs, k, ctx, with_concrete!(&gva, a => with_concrete!(&gvb, b => a.intersects(b)))), m.intersects());
            let k = format!("contains:{tva}/{tvb}");
            cmpb!(k, try_bool!(obs, k, ctx, with_concrete!(&gva, a => with_concrete!(&gvb, b => a.contains(b)))), m.contains());
            let k = format!("contains:{tvb}/{tva}");
            cmpb!(k, try_bool!(obs, k, ctx, with_concrete!(&gva, a => with_concrete!(&gvb, b => b.contains(a)))), mt.contains());
            let k = format!("within:{tva}/{tvb}");
            cmpb!(k, try_bool!(obs, k, ctx, with_concrete!(&gva, a => with_concrete!(&gvb, b => a.is_within(b)))), m.within());
        }
        // coordinate_position on the lattice points around each operand
        for (g, gg) in [(&c.a, &ga), (&c.b, &gb)] {
            let Some(((x0, y0), (x1, y1))) = g.bbox() else {
                // empty geometry: everything is outside
                let q = c.xf.apply((0, 0));
                let got = with_concrete!(gg, a => a.coordinate_position(&q));
                obs.cmp();
                if got != CoordPos::Outside {
                    obs.fail(format!("coordpos:{}|got={},want=Outside", g.type_name(), pos_name(got)), format!("empty geometry {}", wkt(g)));
                }
                continue;
            };
            let loc = Located::new(g);
            let tn = g.type_name();
            let (w, h) = (x1 - x0 + 3, y1 - y0 + 3);
            let total = w * h;
            let stride = ((total + 199) / 200).max(1);
            let segs = g.segments();
            let verts = g.coords();
            let mut idx = 0i64;
            while idx < total {
                let q = (x0 - 1 + idx % w, y0 - 1 + idx / w);
                idx += stride;
                let want = loc.locate(crate::exact::HP::int(q));
                if want == Loc::B || verts.contains(&q) {
                    if verts.contains(&q) {
                        obs.label("q:on-vertex");
                    }
                    for s in &segs {
                        if crate::exact::on_segment_int(s.0, s.1, q) && s.0 != s.1 {
                            // classify in the transformed frame (D4 may swap axes)
                            let (p0, p1) = (c.xf.apply(s.0), c.xf.apply(s.1));
                            if p0.x == p1.x {
                                obs.label("q:on-vertical-edge");
                            } else if p0.y == p1.y {
                                obs.label("q:on-horizontal-edge");
                            } else {
                                obs.label("q:on-slanted-edge");
                            }
                        }
                    }
                }
                let qc = c.xf.apply(q);
                let k = format!("coordpos:{tn}");
                let got = match guard(std::panic::AssertUnwindSafe(|| with_concrete!(gg, a => a.coordinate_position(&qc)))) {
                    Ok(v) => v,
                    Err(p) => {
                        obs.fail(format!("{k}|panic|{}", p.site()), format!("{} q={:?} g={}", p, q, wkt(g)));
                        continue;
                    }
                };
                obs.cmp();
                if got != loc_pos(want) {
                    // input class: endpoint shared by an even number (>= 2) of open line-work members
                    let nshared = loc.lines.iter().filter(|l| l.len() >= 2 && l.first() != l.last())
                        .map(|l| (l[0] == q) as usize + (*l.last().unwrap() == q) as usize).sum::<usize>();
                    let class = if nshared >= 2 && nshared % 2 == 0 { "|even-shared-endpoint" } else { "" };
                    obs.fail(
                        format!("{k}|got={},want={}{class}", pos_name(got), pos_name(loc_pos(want))),
                        format!("coordinate_position({}, {:?}) = {} but the point is {:?}; xf={:?}", wkt(g), q, pos_name(got), want, c.xf),
                    );
                }
                let got2 = gg.coordinate_position(&qc);
                obs.cmp();
                if got2 != got {
                    obs.fail(format!("coordpos:Geometry[{tn}]|differs-from-concrete"), format!("{} q={:?}", wkt(g), q));
                }
            }
        }
    }
}
