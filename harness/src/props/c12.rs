//! C12 — closest and interior points lie on the geometry.
use crate::conv::{to_geo, ulp, wkt, Xf};
use crate::engine::{guard, Obs, Property, Tier};
use crate::exact::{C, HP};
use crate::gen::{scene_strategy, xf_strategy, Scene};
use crate::props::c07::primitives;
use crate::refgeom::validity::in_relate_domain;
use crate::refgeom::{Loc, Located, G};
use crate::with_concrete;
use geo::{Closest, ClosestPoint, Coord, Geometry, InteriorPoint, Point};
use proptest::prelude::*;
use serde::{Deserialize, Serialize};
use serde_json::{json, Value};

#[derive(Clone, Debug, Serialize, Deserialize)]
pub struct Case {
    pub g: G,
    /// query points on the (doubled) lattice
    pub queries: Vec<C>,
    pub xf: Xf,
    /// representation noise for the value handed to geo (0 = none): a repeated vertex, an empty member
    #[serde(default)]
    pub noise: u64,
    /// `g` is a collection of individually valid members of possibly different dimensions, which may overlap (point
    /// location and distance are those of the union)
    #[serde(default)]
    pub mixed: bool,
    /// sub-case: a thin triangle in doubles (a, b, and a point next to the segment a-b); `g` is then ignored
    #[serde(default)]
    pub sliver: Option<[(f64, f64); 3]>,
    #[serde(skip)]
    pub trusted: bool,
}

pub struct C12;

trait Ip {
    fn ip(&self) -> Option<Point<f64>>;
}
macro_rules! ip_plain { ($($t:ident),*) => { $( impl Ip for geo::$t<f64> { fn ip(&self) -> Option<Point<f64>> { Some(self.interior_point()) } } )* } }
macro_rules! ip_opt { ($($t:ident),*) => { $( impl Ip for geo::$t<f64> { fn ip(&self) -> Option<Point<f64>> { self.interior_point() } } )* } }
ip_plain!(Point, Line, Rect, Triangle);
ip_opt!(LineString, Polygon, MultiPoint, MultiLineString, MultiPolygon, GeometryCollection);

fn f64_dist_point_seg(p: (f64, f64), a: C, b: C) -> f64 {
    let (ax, ay, bx, by) = (a.0 as f64, a.1 as f64, b.0 as f64, b.1 as f64);
    let (dx, dy) = (bx - ax, by - ay);
    let l2 = dx * dx + dy * dy;
    let t = if l2 == 0.0 { 0.0 } else { (((p.0 - ax) * dx + (p.1 - ay) * dy) / l2).clamp(0.0, 1.0) };
    ((p.0 - ax - t * dx).powi(2) + (p.1 - ay - t * dy).powi(2)).sqrt()
}

/// exact location of an f64 point (a dyadic rational) given in the lattice frame
fn locate_f64(loc: &Located, x: f64, y: f64) -> Option<Loc> {
    // x = mx * 2^ex exactly; bring both to a common power-of-two denominator
    fn decomp(v: f64) -> (i128, i32) {
        if v == 0.0 {
            return (0, 0);
        }
        let bits = v.to_bits();
        let neg = bits >> 63 != 0;
        let exp = ((bits >> 52) & 0x7ff) as i32;
        let frac = (bits & ((1u64 << 52) - 1)) as i128;
        let (m, e) = if exp == 0 { (frac, -1074) } else { (frac | (1i128 << 52), exp - 1075) };
        let tz = m.trailing_zeros() as i32;
        ((if neg { -m } else { m }) >> tz, e + tz)
    }
    let ((mx, ex), (my, ey)) = (decomp(x), decomp(y));
    let e = ex.min(ey).min(0);
    if e < -60 || (ex - e) > 60 || (ey - e) > 60 || mx.abs() >> 60 != 0 || my.abs() >> 60 != 0 {
        return None; // too fine for the i128 model: undecidable here
    }
    let w = 1i128 << (-e);
    let hx = mx.checked_shl((ex - e) as u32)?;
    let hy = my.checked_shl((ey - e) as u32)?;
    if hx.abs() >> 100 != 0 || hy.abs() >> 100 != 0 {
        return None;
    }
    Some(loc.locate(HP::new(hx, hy, w)))
}

impl Property for C12 {
    type Case = Case;
    const ID: &'static str = "C12";
    fn strategy(_tier: Tier) -> BoxedStrategy<Case> {
        let lattice = (scene_strategy(3), proptest::collection::vec((0u8..=255, 0u8..=255, any::<bool>()), 1..8), xf_strategy(), prop_oneof![1 => Just(0u64), 1 => any::<u64>()])
            .prop_map(|(Scene { a, partners }, qs, xf, noise)| {
                // query points: lattice points of the grown bbox, and features of the partner geometries (coincidence bias)
                let bb = a.bbox().unwrap_or(((0, 0), (4, 4)));
                let pool: Vec<C> = partners.iter().flat_map(|p| p.coords()).chain(a.coords()).collect();
                let queries = qs
                    .iter()
                    .map(|(u, v, from_pool)| {
                        if *from_pool && !pool.is_empty() {
                            pool[(*u as usize * pool.len()) >> 8]
                        } else {
                            let (w, h) = (bb.1 .0 - bb.0 .0 + 5, bb.1 .1 - bb.0 .1 + 5);
                            (bb.0 .0 - 2 + ((*u as i64 * w) >> 8), bb.0 .1 - 2 + ((*v as i64 * h) >> 8))
                        }
                    })
                    .collect();
                // 1 case in 5: the geometry and its partners together, as one collection of mixed dimensions
                if noise % 5 == 1 {
                    let mut members = vec![a];
                    members.extend(partners);
                    let mut queries: Vec<C> = queries;
                    // sometimes a member of areal TYPE without area: a Rect collapsed to a segment or a point, a collinear Triangle
                    // (the selectors are independent bit fields of `noise`: residues of one number modulo 3, 5 and 6 are not)
                    // (also one with all three vertices distinct), a Line / LineString without length - on a vertex of the other
                    // members or, half of the time, away from them; with query points on it, beside it and on its supporting line
                    if (noise >> 8) % 3 == 0 {
                        if let Some(p0) = pool.first().copied() {
                            let mut p1 = pool[((noise >> 32) as usize) % pool.len()];
                            let mut p0 = p0;
                            if (noise >> 16) & 1 == 0 {
                                p1 = (bb.1 .0 + 2 + ((noise >> 18) % 3) as i64, bb.0 .1 - 2 + ((noise >> 21) % 7) as i64);
                                if (noise >> 25) & 1 == 0 {
                                    p0 = (p1.0 + ((noise >> 27) % 3) as i64, p1.1 + 1 + ((noise >> 30) & 1) as i64);
                                }
                            }
                            let d = (p1.0 - p0.0, p1.1 - p0.1);
                            members.push(match (noise >> 12) % 6 {
                                0 => G::Rect(p0, (p1.0, p0.1)),
                                1 => G::Rect(p1, p1),
                                2 => G::Triangle(p0, p1, ((p0.0 + p1.0) / 2 * 2 - p0.0, (p0.1 + p1.1) / 2 * 2 - p0.1)),
                                3 => G::Triangle(p0, p1, (p1.0 + d.0, p1.1 + d.1)),
                                4 => G::Triangle(p1, p1, p1),
                                _ => G::Line(p1, p1),
                            });
                            let qs2 = [p1, (p1.0 + 1, p1.1 + 1), (p1.0 + 3 * d.0, p1.1 + 3 * d.1), (p0.0 - d.0, p0.1 - d.1), (p1.0 + 2, p1.1 - 1)];
                            for k in 0..5 {
                                if (noise >> (40 + k)) & 1 == 1 {
                                    queries.push(qs2[k]);
                                }
                            }
                        }
                    }
                    return Case { g: G::Coll(members), queries, xf, noise: 0, mixed: true, sliver: None, trusted: true };
                }
                Case { g: a, queries, xf, noise, mixed: false, sliver: None, trusted: true }
            })
            .boxed();
        // thin triangles in doubles: the third vertex lies 1 .. 2^24 ulp off the segment of the other two
        let nudge = |x: f64, n: i64| if n == 0 { x } else if x == 0.0 { n as f64 * 2f64.powi(-40) } else { f64::from_bits((x.to_bits() as i64 + n) as u64) };
        let step = || prop_oneof![1 => Just(0i64), 2 => -3i64..=3, 5 => (2u32..=24, any::<bool>()).prop_map(|(k, neg)| if neg { -(1i64 << k) } else { 1i64 << k })];
        let coord = || prop_oneof![2 => -1.0e6f64..1.0e6, 2 => -8.0f64..8.0, 1 => (-64i32..=64).prop_map(|k| k as f64 / 8.0)];
        let sliver = ((coord(), coord()), (coord(), coord()), 0.05f64..0.95, step(), step()).prop_map(move |(a, b, t, nx, ny)| {
            let m = (a.0 + t * (b.0 - a.0), a.1 + t * (b.1 - a.1));
            Case { g: G::MultiPoint(vec![]), queries: vec![], xf: Xf::ID, noise: 0, mixed: false, sliver: Some([a, b, (nudge(m.0, nx), nudge(m.1, ny))]), trusted: true }
        });
        prop_oneof![15 => lattice, 1 => sliver.boxed()].boxed()
    }
    fn quota(tier: Tier) -> u64 {
        tier.pick(2_000_000, 40_000_000)
    }
    fn rule() -> String {
        "A valid geometry of any type from the scene generator (polygons with holes, holes touching the shell, concave polyomino \
         shapes, line work, points, collections) under an exact similarity, with 1-7 query points on the lattice (inside, on the \
         boundary, on vertices, outside, equidistant). Oracle: exact point location and exact distance on the lattice. Checked: \
         closest_point is Intersection(p) iff p intersects g, else SinglePoint(q) with q on g and |p-q| equal to the true distance \
         (tolerance 1e-9 relative + 8 ulp), never Indeterminate for non-empty valid input; interior_point is None iff empty, the \
         returned point (a dyadic rational, located exactly) is not in the exterior, and is strictly interior for polygonal \
         geometries; no panic. One case in five is the geometry and its partners as one collection of mixed dimension, a third of \
         those with a member of linear / areal TYPE without extent or area (collapsed Rect, collinear or one-point Triangle, \
         zero-length Line) on or away from the other members, with query points on it, beside it and on its supporting line. \
         Sub-case (1 in 16): interior_point of a thin triangle in doubles (third vertex 1..2^24 ulp off the opposite side), as \
         Triangle / Polygon / enum, located by exact orientation signs: strictly inside. \
         Non-trivial = the geometry is a polygon with a hole or concave, or the query is on the boundary."
            .into()
    }
    fn assumptions() -> Vec<String> {
        vec!["for line work and points interior_point only has to lie on the geometry (the documentation returns a vertex or an end point)".into()]
    }
    fn must_hit() -> Vec<&'static str> {
        vec!["query:inside", "query:on-boundary", "query:outside", "has-hole", "hole-tangent", "concave", "mixed-dimension-collection", "sliver:width<=2^16ulp", "sliver:wider"]
    }
    fn show(c: &Case) -> Value {
        json!({"g": wkt(&c.g), "queries": c.queries, "xf": c.xf})
    }
    fn check(c: &Case, obs: &mut Obs) {
        if let Some(t) = &c.sliver {
            check_sliver(t, obs);
            return;
        }
        let member_ok = |g: &G| match g { G::Coll(v) if c.mixed => v.iter().all(|m| matches!(m, G::Rect(..) | G::Triangle(..)) || in_relate_domain(m)), g => in_relate_domain(g) };
        if !c.trusted && !member_ok(&c.g) {
            obs.label("skipped:out-of-domain");
            return;
        }
        if c.mixed {
            let mut dims = [false; 3];
            if let G::Coll(v) = &c.g {
                for m in v { let d = m.dim(); if d >= 0 { dims[d as usize] = true; } }
            }
            if dims.iter().filter(|d| **d).count() >= 2 {
                obs.label("mixed-dimension-collection");
            }
        }
        let tn = c.g.type_name();
        obs.label(format!("type:{tn}"));
        let g_in = if c.noise != 0 { crate::conv::noisy(&c.g, c.noise) } else { c.g.clone() };
        if g_in != c.g {
            obs.label("noise:repeated-vertex-or-empty-member");
        }
        let gg = to_geo(&g_in, &c.xf);
        let loc = Located::new(&c.g);
        let prims = primitives(&c.g);
        let s = c.xf.scale();
        let maxabs = c.xf.max_abs(&c.g).max(1.0 * s);
        // shape labels
        let mut polys = vec![];
        let (mut p0, mut l0) = (vec![], vec![]);
        c.g.parts(&mut p0, &mut l0, &mut polys);
        let real_polys = !matches!(c.g, G::Rect(..) | G::Triangle(..));
        for po in &polys {
            if !po.holes.is_empty() {
                obs.label("has-hole");
                obs.nontrivial();
                if po.holes.iter().any(|h| h.iter().any(|v| po.ext.windows(2).any(|w| crate::exact::on_segment_int(w[0], w[1], *v)))) {
                    obs.label("hole-tangent");
                }
            }
            if real_polys && po.ext.len() > 4 {
                let sgn = crate::refgeom::measure::twice_area_ring(&po.ext).signum();
                let n = po.ext.len() - 1;
                if (0..n).any(|i| (crate::exact::cross_int(po.ext[i], po.ext[(i + 1) % n], po.ext[(i + 2) % n]).signum()) == -sgn) {
                    obs.label("concave");
                    obs.nontrivial();
                }
            }
        }
        let ctx = || format!("g={} xf={:?}", wkt(&g_in), c.xf);

        // ---- interior_point
        let ip_concrete = guard(std::panic::AssertUnwindSafe(|| with_concrete!(&gg, x => x.ip())));
        let ip_enum = guard(std::panic::AssertUnwindSafe(|| gg.interior_point()));
        for (name, r) in [(format!("interior_point:{tn}"), ip_concrete), (format!("interior_point:Geometry[{tn}]"), ip_enum)] {
            match r {
                Err(p) => obs.fail(format!("{name}|panic|{}", p.site()), format!("{} {}", p, ctx())),
                Ok(None) => {
                    obs.expect(c.g.is_empty(), &format!("{name}|none-for-nonempty"), || ctx());
                }
                Ok(Some(pt)) => {
                    obs.cmp();
                    if c.g.is_empty() {
                        obs.fail(format!("{name}|some-for-empty"), format!("{:?}; {}", pt, ctx()));
                        continue;
                    }
                    let (lx, ly) = c.xf.invert_f(Coord { x: pt.x(), y: pt.y() });
                    // exact only if mapping back was exact: check by re-applying
                    let back = c.xf.apply_f(lx, ly);
                    let exact_back = back.x == pt.x() && back.y == pt.y();
                    match (exact_back, locate_f64(&loc, lx, ly)) {
                        (true, Some(l)) => {
                            // "has interior of dimension 2": some areal member with non-zero exact area (a collapsed Rect / collinear
                            // Triangle is of areal type but has none)
                            let areal = {
                                let (mut p0, mut l0, mut po) = (vec![], vec![], vec![]);
                                c.g.parts(&mut p0, &mut l0, &mut po);
                                po.iter().any(|p| crate::refgeom::measure::twice_area_poly(p) != 0)
                            };
                            if areal && c.g.dim() == 2 && c.mixed {
                                obs.label("mixed:areal-with-degenerate-or-lower-members");
                            }
                            if l == Loc::E {
                                // without any member of positive area the answer is a point of line work or of a degenerate
                                // Rect / Triangle (for a collinear triangle: its rounded centroid): on the geometry up to rounding
                                let d = prims.iter().map(|sg| f64_dist_point_seg((lx, ly), sg.0, sg.1)).fold(f64::INFINITY, f64::min);
                                let tol = 8.0 * ulp(maxabs) / s + 1e-9;
                                if areal || d > tol {
                                    obs.fail(format!("{name}|outside"), format!("returned {:?} = lattice ({lx}, {ly}) is in the exterior; {}", pt, ctx()));
                                }
                            } else if areal && l != Loc::I {
                                obs.fail(format!("{name}|not-strictly-inside"), format!("returned {:?} = lattice ({lx}, {ly}) is on the boundary; {}", pt, ctx()));
                            }
                        }
                        _ => {
                            // fall back to a tolerance test: distance to the geometry's primitives
                            obs.label("interior-point:inexact-backmap");
                            let d = prims.iter().map(|sg| f64_dist_point_seg((lx, ly), sg.0, sg.1)).fold(f64::INFINITY, f64::min);
                            let tol = 8.0 * ulp(maxabs) / s + 1e-9;
                            if c.g.dim() < 2 && d > tol {
                                obs.fail(format!("{name}|outside"), format!("returned {:?} is {d} away from the geometry; {}", pt, ctx()));
                            }
                        }
                    }
                }
            }
        }

        // ---- closest_point
        if c.g.is_empty() {
            return;
        }
        for q in &c.queries {
            let l = loc.locate(HP::int(*q));
            obs.label(match l {
                Loc::I => "query:inside",
                Loc::B => "query:on-boundary",
                Loc::E => "query:outside",
            });
            if l == Loc::B {
                obs.nontrivial();
            }
            let qp = Point(c.xf.apply(*q));
            let want_d = prims.iter().map(|sg| crate::refgeom::measure::dist2_point_seg(*q, sg.0, sg.1)).min().map(|r| r.to_f64().sqrt()).unwrap_or(0.0);
            let tol_l = 1e-9 * (1.0 + want_d) + 8.0 * ulp(maxabs) / s;
            // input class for the known-findings matcher: the nearest part of the collection is a member of linear or areal TYPE
            // without extent (all its coordinates equal), strictly nearer than everything else
            let zcls = match &c.g {
                G::Coll(v) if c.mixed => {
                    let zero = |m: &G| !matches!(m, G::Point(..) | G::MultiPoint(..)) && { let cs = m.coords(); !cs.is_empty() && cs.iter().all(|x| *x == cs[0]) };
                    let dz = v.iter().filter(|m| zero(m)).map(|m| { let z = m.coords()[0]; crate::refgeom::measure::dist2_point_seg(*q, z, z) }).min();
                    let rest = G::Coll(v.iter().filter(|m| !zero(m)).cloned().collect());
                    let dr = primitives(&rest).iter().map(|sg| crate::refgeom::measure::dist2_point_seg(*q, sg.0, sg.1)).min();
                    match (dz, dr) {
                        (Some(z), Some(r)) if z < r => "|nearest-is-a-member-without-extent",
                        (Some(_), None) => "|nearest-is-a-member-without-extent",
                        _ => "",
                    }
                }
                _ => "",
            };
            if !zcls.is_empty() {
                obs.label("mixed:nearest-is-a-member-without-extent");
            }
            let r1 = guard(std::panic::AssertUnwindSafe(|| with_concrete!(&gg, x => x.closest_point(&qp))));
            let r2 = guard(std::panic::AssertUnwindSafe(|| gg.closest_point(&qp)));
            for (name, r) in [(format!("closest_point:{tn}"), r1), (format!("closest_point:Geometry[{tn}]"), r2)] {
                let qctx = || format!("q={:?} ({:?}) {}", q, qp, ctx());
                match r {
                    Err(p) => obs.fail(format!("{name}|panic|{}", p.site()), format!("{} {}", p, qctx())),
                    Ok(Closest::Indeterminate) => obs.fail(format!("{name}|indeterminate-for-valid-input{zcls}"), qctx()),
                    Ok(Closest::Intersection(r)) => {
                        obs.cmp();
                        if l == Loc::E {
                            obs.fail(format!("{name}|intersection-for-outside-point"), format!("got Intersection({:?}); {}", r, qctx()));
                        } else {
                            let (lx, ly) = c.xf.invert_f(r.0);
                            let d = ((lx - q.0 as f64).powi(2) + (ly - q.1 as f64).powi(2)).sqrt();
                            obs.expect(d <= tol_l, &format!("{name}|intersection-point-differs-from-query"), || format!("got {:?}; {}", r, qctx()));
                        }
                    }
                    Ok(Closest::SinglePoint(r)) => {
                        obs.cmp();
                        if l != Loc::E {
                            obs.fail(format!("{name}|single-point-for-intersecting-query{zcls}"), format!("got SinglePoint({:?}) but the query is {:?}; {}", r, l, qctx()));
                        } else {
                            let (lx, ly) = c.xf.invert_f(r.0);
                            let on = prims.iter().map(|sg| f64_dist_point_seg((lx, ly), sg.0, sg.1)).fold(f64::INFINITY, f64::min);
                            obs.expect(on <= tol_l, &format!("{name}|returned-point-not-on-geometry"), || format!("got {:?} = lattice ({lx},{ly}), {on} away; {}", r, qctx()));
                            let d = ((lx - q.0 as f64).powi(2) + (ly - q.1 as f64).powi(2)).sqrt();
                            obs.expect((d - want_d).abs() <= tol_l, &format!("{name}|not-the-nearest{zcls}"), || format!("got {:?} at distance {d}, true distance {want_d}; {}", r, qctx()));
                        }
                    }
                }
            }
        }
    }
}


/// interior_point of a thin but non-degenerate triangle in doubles (as Triangle, as Polygon, through the enum): decided by exact
/// orientation signs of the returned point against the three edges.
fn check_sliver(t: &[(f64, f64); 3], obs: &mut Obs) {
    use crate::exact::big::{orient_f64, Dy};
    use geo::{Coord, Geometry, LineString, Polygon, Triangle};
    obs.label("sub:sliver");
    let fin = |v: f64| v.is_finite() && v.abs() <= 1e30 && (v == 0.0 || v.abs() >= 1e-30);
    if !t.iter().all(|p| fin(p.0) && fin(p.1)) {
        obs.label("skipped:out-of-domain");
        return;
    }
    let (a, b, c) = (t[0], t[1], t[2]);
    let o = orient_f64(a, b, c);
    if o == 0 {
        obs.label("sliver:degenerate");
        return;
    }
    obs.nontrivial();
    // width of the triangle (its least altitude) in ulp of the largest coordinate, from the exact determinant
    let det = {
        let d = |v: f64| Dy::from_f64(v);
        d(b.0).sub(&d(a.0)).mul(&d(c.1).sub(&d(a.1))).sub(&d(b.1).sub(&d(a.1)).mul(&d(c.0).sub(&d(a.0)))).to_f64().abs()
    };
    let longest = [(a, b), (b, c), (c, a)].iter().map(|(p, q)| (q.0 - p.0).hypot(q.1 - p.1)).fold(0.0, f64::max);
    let maxabs = t.iter().fold(0.0f64, |m, p| m.max(p.0.abs()).max(p.1.abs()));
    let width_ulps = det / longest / (maxabs * f64::EPSILON);
    // input class for the known-findings matcher
    let cls = if width_ulps <= 16.0 { "|width<=16ulp" } else { "" };
    obs.label(if width_ulps <= 16.0 { "sliver:width<=16ulp" } else if width_ulps <= 65536.0 { "sliver:width<=2^16ulp" } else { "sliver:wider" });
    let co = |p: (f64, f64)| Coord { x: p.0, y: p.1 };
    let tri = Triangle(co(a), co(b), co(c));
    let poly = Polygon::new(LineString::from(vec![co(a), co(b), co(c), co(a)]), vec![]);
    let ctx = || format!("triangle {:?} {:?} {:?}, {width_ulps:.3} ulp wide", a, b, c);
    let runs: Vec<(&str, Result<Option<geo::Point<f64>>, crate::engine::PanicInfo>)> = vec![
        ("interior_point:Triangle", guard(std::panic::AssertUnwindSafe(|| Some(tri.interior_point())))),
        ("interior_point:Polygon", guard(std::panic::AssertUnwindSafe(|| poly.interior_point()))),
        ("interior_point:Geometry[Polygon]", guard(std::panic::AssertUnwindSafe(|| Geometry::Polygon(poly.clone()).interior_point()))),
    ];
    for (name, r) in runs {
        match r {
            Ok(Some(p)) => {
                obs.cmp();
                let q = (p.x(), p.y());
                if !(q.0.is_finite() && q.1.is_finite()) {
                    obs.fail(format!("{name}|sliver|not-finite{cls}"), format!("got {:?}; {}", q, ctx()));
                    continue;
                }
                let s = [orient_f64(a, b, q), orient_f64(b, c, q), orient_f64(c, a, q)];
                if s.iter().any(|x| *x == -o) {
                    obs.fail(format!("{name}|sliver|outside{cls}"), format!("got {:?}; {}", q, ctx()));
                } else if s.iter().any(|x| *x == 0) {
                    obs.fail(format!("{name}|sliver|on-the-boundary{cls}"), format!("got {:?}; {}", q, ctx()));
                }
            }
            Ok(None) => obs.fail(format!("{name}|sliver|none-for-nonempty{cls}"), ctx()),
            Err(pn) => obs.fail(format!("{name}|sliver|panic|{}{cls}", pn.site()), format!("{} {}", pn, ctx())),
        }
    }
}
