//! C09 — simplification keeps a vertex subsequence within the tolerance.
use crate::engine::{guard, Obs, Property, Tier};
use geo::{Coord, LineString, MultiLineString, MultiPolygon, Polygon, Simplify, SimplifyIdx, SimplifyVw, SimplifyVwIdx, SimplifyVwPreserve};
use proptest::prelude::*;
use serde::{Deserialize, Serialize};

type P = (f64, f64);

#[derive(Clone, Debug, Serialize, Deserialize)]
pub struct Case {
    /// 0 LineString(parts[0]) 1 MultiLineString(parts) 2 Polygon(parts[0]; parts[1..]) 3 MultiPolygon (each part a hole-free polygon)
    pub kind: u8,
    pub parts: Vec<Vec<P>>,
    pub eps: f64,
}

pub struct C09;

fn walk_strategy() -> impl Strategy<Value = Vec<P>> {
    prop_oneof![
        // lattice walk with repeats, collinear runs and back-tracking
        5 => ((0i32..8, 0i32..8), proptest::collection::vec((-2i32..3, -2i32..3), 0..40)).prop_map(|(o, steps)| {
            let mut v = vec![(o.0 as f64, o.1 as f64)];
            let (mut x, mut y) = o;
            for (dx, dy) in steps {
                x += dx;
                y += dy;
                v.push((x as f64, y as f64));
            }
            v
        }),
        // tiny lattice points (many ties)
        3 => proptest::collection::vec((0i32..4, 0i32..4), 0..16).prop_map(|v| v.into_iter().map(|p| (p.0 as f64, p.1 as f64)).collect()),
        // random finite doubles
        2 => proptest::collection::vec((-1000.0f64..1000.0, -1000.0f64..1000.0), 0..30),
        // far from the origin
        1 => ((1e7f64..1e9), proptest::collection::vec((0i32..6, 0i32..6), 0..20)).prop_map(|(o, v)| v.into_iter().map(|p| (o + p.0 as f64, o * 0.5 + p.1 as f64)).collect()),
    ]
}

fn pt_seg_dist(p: P, a: P, b: P) -> f64 {
    let (dx, dy) = (b.0 - a.0, b.1 - a.1);
    let l2 = dx * dx + dy * dy;
    if l2 == 0.0 {
        return ((p.0 - a.0).powi(2) + (p.1 - a.1).powi(2)).sqrt();
    }
    let t = (((p.0 - a.0) * dx + (p.1 - a.1) * dy) / l2).clamp(0.0, 1.0);
    ((p.0 - a.0 - t * dx).powi(2) + (p.1 - a.1 - t * dy).powi(2)).sqrt()
}
fn tri_area(a: P, b: P, c: P) -> f64 {
    (((b.0 - a.0) * (c.1 - a.1) - (b.1 - a.1) * (c.0 - a.0)) * 0.5).abs()
}

fn to_ls(v: &[P]) -> LineString<f64> {
    LineString::new(v.iter().map(|p| Coord { x: p.0, y: p.1 }).collect())
}
fn from_ls(l: &LineString<f64>) -> Vec<P> {
    l.0.iter().map(|c| (c.x, c.y)).collect()
}

/// is `out` the subsequence of `inp` at strictly increasing indices? returns the indices (greedy leftmost match
/// is not unique with repeated points, so try to match with first/last pinned)
fn subsequence_indices(inp: &[P], out: &[P]) -> Option<Vec<usize>> {
    let mut idx = vec![];
    let mut j = 0usize;
    for (k, o) in out.iter().enumerate() {
        // the last output must be able to use the last input
        if k + 1 == out.len() && !out.is_empty() && inp.last() == Some(o) && j <= inp.len() - 1 {
            idx.push(inp.len() - 1);
            j = inp.len();
            continue;
        }
        while j < inp.len() && inp[j] != *o {
            j += 1;
        }
        if j == inp.len() {
            return None;
        }
        idx.push(j);
        j += 1;
    }
    Some(idx)
}

struct Ctx<'a> {
    eps: f64,
    extent: f64,
    what: &'a str,
}

fn check_rdp_line(inp: &[P], out: &[P], idx: Option<&[usize]>, min_len: usize, cx: &Ctx, obs: &mut Obs) {
    let key = |s: &str| format!("{}|{}", cx.what, s);
    let desc = || format!("eps={} input={:?} output={:?} idx={:?}", cx.eps, inp, out, idx);
    if cx.eps <= 0.0 {
        obs.expect(out == inp, &key("eps<=0-not-identity"), desc);
        if let Some(ix) = idx {
            obs.expect(ix.iter().cloned().eq(0..inp.len()), &key("idx-eps<=0-not-identity"), desc);
        }
        return;
    }
    let tol = cx.eps * (1.0 + 1e-9) + 1e-12 * cx.extent;
    let range_ok = |j: usize, i: usize| -> bool { ((j + 1)..i).all(|k| pt_seg_dist(inp[k], inp[j], inp[i]) <= tol) };
    if inp.is_empty() {
        obs.expect(out.is_empty(), &key("nonempty-from-empty"), desc);
        return;
    }
    match idx {
        Some(ix) => {
            let ok = ix.windows(2).all(|w| w[0] < w[1]) && ix.iter().all(|i| *i < inp.len());
            obs.expect(ok, &key("idx-not-increasing"), desc);
            if !ok {
                return;
            }
            let at: Vec<P> = ix.iter().map(|i| inp[*i]).collect();
            obs.expect(at == out, &key("idx-disagrees-with-coords"), desc);
            obs.expect(ix.first() == Some(&0) && ix.last() == Some(&(inp.len() - 1)), &key("endpoint-dropped"), desc);
            for w in ix.windows(2) {
                obs.expect(range_ok(w[0], w[1]), &key("dropped-vertex-farther-than-eps"), || format!("between retained {} and {}; {}", w[0], w[1], desc()));
            }
        }
        None => {
            // no indices available: with repeated points the embedding of the output into the input is not
            // unique, so ask whether SOME embedding (first -> 0, last -> n-1) satisfies the distance bound
            let (n, m) = (inp.len(), out.len());
            if m == 0 || m > n || out[0] != inp[0] || out[m - 1] != inp[n - 1] {
                obs.fail(key("not-a-subsequence"), desc());
                return;
            }
            // reach[k][i]: out[..=k] embeds with out[k] at input index i, all dropped ranges within tolerance
            let mut reach = vec![vec![false; n]; m];
            let mut embeds = vec![vec![false; n]; m];
            reach[0][0] = true;
            embeds[0][0] = true;
            for k in 1..m {
                for i in k..n {
                    if inp[i] != out[k] {
                        continue;
                    }
                    for j in (k - 1)..i {
                        if embeds[k - 1][j] {
                            embeds[k][i] = true;
                        }
                        if reach[k - 1][j] && range_ok(j, i) {
                            reach[k][i] = true;
                        }
                    }
                }
            }
            obs.cmp();
            if !(embeds[m - 1][n - 1] || (m == 1 && n == 1)) {
                obs.fail(key("not-a-subsequence"), desc());
                return;
            }
            obs.expect(reach[m - 1][n - 1] || (m == 1 && n == 1), &key("dropped-vertex-farther-than-eps"), || format!("no embedding of the output satisfies the bound; {}", desc()));
        }
    }
    if inp.len() >= min_len {
        obs.expect(out.len() >= min_len, &key("below-minimum-size"), desc);
    }
    if out.len() < inp.len() && out.len() > 2 {
        obs.nontrivial();
    }
}

fn check_vw_line(inp: &[P], out: &[P], idx: Option<&[usize]>, cx: &Ctx, obs: &mut Obs) {
    let key = |s: &str| format!("{}|{}", cx.what, s);
    let desc = || format!("eps={} input={:?} output={:?} idx={:?}", cx.eps, inp, out, idx);
    if cx.eps <= 0.0 {
        obs.expect(out == inp, &key("eps<=0-not-identity"), desc);
        if let Some(ix) = idx {
            obs.expect(ix.iter().cloned().eq(0..inp.len()), &key("idx-eps<=0-not-identity"), desc);
        }
        return;
    }
    let ix: Vec<usize> = match idx {
        Some(ix) => {
            let ok = ix.windows(2).all(|w| w[0] < w[1]) && ix.iter().all(|i| *i < inp.len());
            obs.expect(ok, &key("idx-not-increasing"), desc);
            if !ok {
                return;
            }
            let at: Vec<P> = ix.iter().map(|i| inp[*i]).collect();
            obs.expect(at == out, &key("idx-disagrees-with-coords"), desc);
            ix.to_vec()
        }
        None => match subsequence_indices(inp, out) {
            Some(ix) => ix,
            None => {
                obs.fail(key("not-a-subsequence"), desc());
                return;
            }
        },
    };
    if inp.is_empty() {
        obs.expect(out.is_empty(), &key("nonempty-from-empty"), desc);
        return;
    }
    obs.expect(ix.first() == Some(&0) && ix.last() == Some(&(inp.len() - 1)), &key("endpoint-dropped"), desc);
    // with repeated points the subsequence match is not unique: the area test is only decisive with explicit indices
    // or when all input points are distinct
    let distinct = {
        // (a closed ring repeats its first point as its last: that single repetition leaves the match unique)
        let body = if inp.len() >= 2 && inp.first() == inp.last() { &inp[..inp.len() - 1] } else { inp };
        let mut s: Vec<(u64, u64)> = body.iter().map(|p| (p.0.to_bits(), p.1.to_bits())).collect();
        s.sort();
        s.windows(2).all(|w| w[0] != w[1])
    };
    if idx.is_some() || distinct {
        // tolerance: relative to the SIZE of the line (its coordinate differences are what an area is made of), plus the
        // rounding of one coordinate times that size - not the square of the distance from the origin, which would hide any
        // error of a line far from the origin
        let diam = {
            let (mut lo, mut hi) = ((f64::INFINITY, f64::INFINITY), (f64::NEG_INFINITY, f64::NEG_INFINITY));
            for p in inp {
                lo = (lo.0.min(p.0), lo.1.min(p.1));
                hi = (hi.0.max(p.0), hi.1.max(p.1));
            }
            (hi.0 - lo.0).max(hi.1 - lo.1).max(0.0)
        };
        let tol = 1e-12 * diam * diam + 8.0 * f64::EPSILON * cx.extent * diam;
        for w in ix.windows(3) {
            let a = tri_area(inp[w[0]], inp[w[1]], inp[w[2]]);
            obs.expect(
                a > cx.eps * (1.0 - 1e-9) - tol,
                &key("retained-vertex-with-area<=eps"),
                || format!("vertex {} spans area {a} with retained neighbours {} and {}; {}", w[1], w[0], w[2], desc()),
            );
        }
    }
    if out.len() < inp.len() && out.len() > 2 {
        obs.nontrivial();
    }
}

fn check_vwp_line(inp: &[P], out: &[P], min_len: usize, closed: bool, cx: &Ctx, obs: &mut Obs) {
    let key = |s: &str| format!("{}|{}", cx.what, s);
    let desc = || format!("eps={} input={:?} output={:?}", cx.eps, inp, out);
    if cx.eps <= 0.0 {
        obs.expect(out == inp, &key("eps<=0-not-identity"), desc);
        return;
    }
    obs.expect(subsequence_indices(inp, out).is_some(), &key("not-a-subsequence"), desc);
    if closed && !inp.is_empty() {
        obs.expect(out.first() == out.last(), &key("ring-not-closed"), desc);
    }
    if inp.len() >= min_len {
        obs.expect(out.len() >= min_len, &key("below-minimum-size"), desc);
    }
    if out.len() < inp.len() && out.len() > 2 {
        obs.nontrivial();
    }
}

fn extent_of(parts: &[Vec<P>]) -> f64 {
    let mut m = 1.0f64;
    for p in parts.iter().flatten() {
        m = m.max(p.0.abs()).max(p.1.abs());
    }
    m
}

impl Property for C09 {
    type Case = Case;
    const ID: &'static str = "C09";
    fn strategy(_tier: Tier) -> BoxedStrategy<Case> {
        (0u8..4, proptest::collection::vec(walk_strategy(), 1..4), 0u8..8, any::<u16>(), 0.0f64..1.0)
            .prop_map(|(kind, parts, eclass, esel, efrac)| {
                let ext = extent_of(&parts);
                // candidate tolerances that occur exactly in the input (ties)
                let mut cands: Vec<f64> = vec![];
                for p in &parts {
                    for w in p.windows(3) {
                        cands.push(pt_seg_dist(w[1], w[0], w[2]));
                        cands.push(tri_area(w[0], w[1], w[2]));
                    }
                    if p.len() >= 3 {
                        cands.push(pt_seg_dist(p[p.len() / 2], p[0], p[p.len() - 1]));
                    }
                }
                let eps = match eclass {
                    0 => -efrac - 0.5,
                    1 => 0.0,
                    2 => 1e-12,
                    3 | 4 if !cands.is_empty() => cands[(esel as usize * cands.len()) >> 16],
                    5 => efrac * 2.0 * ext,
                    6 => efrac * 2.0,
                    _ => 1e30,
                };
                Case { kind, parts, eps }
            })
            .boxed()
    }
    fn quota(tier: Tier) -> u64 {
        tier.pick(3_000_000, 60_000_000)
    }
    fn rule() -> String {
        "LineString / MultiLineString / Polygon (with holes) / MultiPolygon built from 1-3 vertex lists of 0-40 vertices: lattice \
         walks with repeats, collinear runs and back-tracking, tiny-lattice point lists (ties), random doubles, lists far from the \
         origin; tolerance from {negative, 0, 1e-12, a vertex-to-chord distance or triangle area that occurs exactly in the input, \
         random up to 2x the extent, 1e30}. Validity predicates over the output (own point-segment distance and triangle area): RDP \
         simplify_idx strictly increasing with first and last, simplify = input at those indices, every dropped vertex within eps of \
         its replacing segment, rings closed and >= 4 coordinates; VW: same index/subsequence agreement, every retained interior \
         vertex spans area > eps with its retained neighbours; VW-preserve: subsequence, closed, >= 4 per ring (>= 2 for lines); \
         eps <= 0 is the identity for coordinate and index variants. Non-trivial = something dropped and something interior kept."
            .into()
    }
    fn must_hit() -> Vec<&'static str> {
        vec!["eps:negative", "eps:zero", "eps:positive", "ring-at-size-limit", "kind:0", "kind:1", "kind:2", "kind:3"]
    }
    fn check(c: &Case, obs: &mut Obs) {
        if c.parts.is_empty() || !c.eps.is_finite() || c.parts.iter().flatten().any(|p| !p.0.is_finite() || !p.1.is_finite()) {
            obs.label("skipped:out-of-domain");
            return;
        }
        obs.label(format!("kind:{}", c.kind % 4));
        obs.label(if c.eps < 0.0 { "eps:negative" } else if c.eps == 0.0 { "eps:zero" } else { "eps:positive" });
        let extent = extent_of(&c.parts);
        let eps = c.eps;
        macro_rules! call {
            ($name:expr, $e:expr) => {
                match guard(std::panic::AssertUnwindSafe(|| $e)) {
                    Ok(v) => Some(v),
                    Err(p) => {
                        obs.fail(format!("{}|panic|{}", $name, p.site()), format!("{} eps={} parts={:?}", p, eps, c.parts));
                        None
                    }
                }
            };
        }
        match c.kind % 4 {
            0 => {
                let inp = &c.parts[0];
                let ls = to_ls(inp);
                if let (Some(out), Some(idx)) = (call!("simplify:LineString", ls.simplify(eps)), call!("simplify_idx:LineString", ls.simplify_idx(eps))) {
                    check_rdp_line(inp, &from_ls(&out), Some(&idx), 2, &Ctx { eps, extent, what: "simplify:LineString" }, obs);
                }
                if let (Some(out), Some(idx)) = (call!("simplify_vw:LineString", ls.simplify_vw(eps)), call!("simplify_vw_idx:LineString", ls.simplify_vw_idx(eps))) {
                    check_vw_line(inp, &from_ls(&out), Some(&idx), &Ctx { eps, extent, what: "simplify_vw:LineString" }, obs);
                }
                if let Some(out) = call!("simplify_vw_preserve:LineString", ls.simplify_vw_preserve(eps)) {
                    check_vwp_line(inp, &from_ls(&out), 2, false, &Ctx { eps, extent, what: "simplify_vw_preserve:LineString" }, obs);
                }
            }
            1 => {
                let mls = MultiLineString::new(c.parts.iter().map(|p| to_ls(p)).collect());
                if let Some(out) = call!("simplify:MultiLineString", mls.simplify(eps)) {
                    obs.expect(out.0.len() == c.parts.len(), "simplify:MultiLineString|member-count", || format!("{:?}", c));
                    for (i, o) in c.parts.iter().zip(out.0.iter()) {
                        check_rdp_line(i, &from_ls(o), None, 2, &Ctx { eps, extent, what: "simplify:MultiLineString" }, obs);
                    }
                }
                if let Some(out) = call!("simplify_vw:MultiLineString", mls.simplify_vw(eps)) {
                    obs.expect(out.0.len() == c.parts.len(), "simplify_vw:MultiLineString|member-count", || format!("{:?}", c));
                    for (i, o) in c.parts.iter().zip(out.0.iter()) {
                        check_vw_line(i, &from_ls(o), None, &Ctx { eps, extent, what: "simplify_vw:MultiLineString" }, obs);
                    }
                }
                if let Some(out) = call!("simplify_vw_preserve:MultiLineString", mls.simplify_vw_preserve(eps)) {
                    obs.expect(out.0.len() == c.parts.len(), "simplify_vw_preserve:MultiLineString|member-count", || format!("{:?}", c));
                    for (i, o) in c.parts.iter().zip(out.0.iter()) {
                        check_vwp_line(i, &from_ls(o), 2, false, &Ctx { eps, extent, what: "simplify_vw_preserve:MultiLineString" }, obs);
                    }
                }
            }
            k => {
                // polygons: Polygon::new closes the rings; the closed ring is the simplification input
                let polys: Vec<Polygon<f64>> = if k == 2 {
                    vec![Polygon::new(to_ls(&c.parts[0]), c.parts[1..].iter().map(|p| to_ls(p)).collect())]
                } else {
                    // multipolygon members: every second part becomes a hole of the part before it
                    c.parts.chunks(2).map(|ch| Polygon::new(to_ls(&ch[0]), ch[1..].iter().map(|p| to_ls(p)).collect())).collect()
                };
                if k == 3 && polys.iter().any(|p| !p.interiors().is_empty()) {
                    obs.label("multipolygon-member-with-hole");
                }
                let rings_of = |p: &Polygon<f64>| -> Vec<Vec<P>> { std::iter::once(p.exterior()).chain(p.interiors().iter()).map(from_ls).collect() };
                if polys.iter().flat_map(|p| rings_of(p)).any(|r| (4..=6).contains(&r.len())) {
                    obs.label("ring-at-size-limit");
                }
                let tname = if k == 2 { "Polygon" } else { "MultiPolygon" };
                let run = |name: &str, f: &dyn Fn(&Polygon<f64>, &MultiPolygon<f64>) -> Vec<Polygon<f64>>| -> Option<Vec<Polygon<f64>>> {
                    let mp = MultiPolygon::new(polys.clone());
                    match guard(std::panic::AssertUnwindSafe(|| f(&polys[0], &mp))) {
                        Ok(v) => Some(v),
                        Err(p) => Some(vec![]).filter(|_| false).or_else(|| {
                            let _ = name;
                            PANIC.with(|c| *c.borrow_mut() = Some(p));
                            None
                        }),
                    }
                };
                thread_local! { static PANIC: std::cell::RefCell<Option<crate::engine::PanicInfo>> = const { std::cell::RefCell::new(None) }; }
                let variants: [(&str, Box<dyn Fn(&Polygon<f64>, &MultiPolygon<f64>) -> Vec<Polygon<f64>>>); 3] = [
                    ("simplify", Box::new(move |p, mp| if k == 2 { vec![p.simplify(eps)] } else { mp.simplify(eps).0 })),
                    ("simplify_vw", Box::new(move |p, mp| if k == 2 { vec![p.simplify_vw(eps)] } else { mp.simplify_vw(eps).0 })),
                    ("simplify_vw_preserve", Box::new(move |p, mp| if k == 2 { vec![p.simplify_vw_preserve(eps)] } else { mp.simplify_vw_preserve(eps).0 })),
                ];
                for (vname, f) in variants.iter() {
                    let what = format!("{vname}:{tname}");
                    let Some(out) = run(vname, f.as_ref()) else {
                        let p = PANIC.with(|c| c.borrow_mut().take()).unwrap_or_default();
                        obs.fail(format!("{what}|panic|{}", p.site()), format!("{} eps={} parts={:?}", p, eps, c.parts));
                        continue;
                    };
                    obs.expect(out.len() == polys.len(), &format!("{what}|member-count"), || format!("{:?}", c));
                    for (pi, po) in polys.iter().zip(out.iter()) {
                        let (ri, ro) = (rings_of(pi), rings_of(po));
                        obs.expect(ri.len() == ro.len(), &format!("{what}|ring-count"), || format!("{:?}", c));
                        for (i, o) in ri.iter().zip(ro.iter()) {
                            let cx = Ctx { eps, extent, what: &what };
                            if !i.is_empty() {
                                obs.expect(o.first() == o.last() && !o.is_empty(), &format!("{what}|ring-not-closed"), || format!("eps={eps} in={:?} out={:?}", i, o));
                            }
                            match *vname {
                                "simplify" => check_rdp_line(i, o, None, 4, &cx, obs),
                                "simplify_vw" => check_vw_line(i, o, None, &cx, obs),
                                _ => check_vwp_line(i, o, 4, true, &cx, obs),
                            }
                        }
                    }
                }
            }
        }
    }
}
