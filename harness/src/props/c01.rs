//! C01 — relate() returns the true DE-9IM matrix.
use crate::conv::{matrix_of, to_geo, variant, wkt, Xf};
use crate::engine::{guard, Obs, Property, Tier};
use crate::gen::{pair_strategy, xf_strategy, Pair};
use crate::refgeom::de9im::{de9im_info, ArrInfo};
use crate::refgeom::validity::in_relate_domain;
use crate::refgeom::{Loc, Located, Matrix, G};
use crate::with_concrete;
use geo::Relate;
use proptest::prelude::*;
use serde::{Deserialize, Serialize};
use serde_json::{json, Value};

#[derive(Clone, Debug, Serialize, Deserialize)]
pub struct Case {
    pub a: G,
    pub b: G,
    pub xf: Xf,
    pub vsel: u64,
    /// sub-case: two segments with arbitrary double coordinates (a0, a1, b0, b1); decided by exact predicates on the doubles
    #[serde(default)]
    pub seg: Option<[(f64, f64); 4]>,
    #[serde(skip)]
    pub trusted: bool,
}

pub struct C01;

type P2 = (f64, f64);

/// Exact DE-9IM matrix of two non-degenerate segments with f64 end points (orientation signs by exact dyadic arithmetic,
/// everything else by exact comparisons of the doubles themselves).
pub fn seg_matrix(a0: P2, a1: P2, b0: P2, b1: P2) -> Matrix {
    use crate::exact::big::orient_f64 as o;
    let (o1, o2, o3, o4) = (o(a0, a1, b0), o(a0, a1, b1), o(b0, b1, a0), o(b0, b1, a1));
    // disjoint segments: II IB IE / BI BB BE / EI EB EE
    let mut m = Matrix([[-1, -1, 1], [-1, -1, 0], [1, 0, 2]]);
    if o1 == 0 && o2 == 0 && o3 == 0 && o4 == 0 {
        // one supporting line: positions along it are ordered like x (like y on a vertical line)
        let key = |p: P2| if a0.0 != a1.0 { p.0 } else { p.1 };
        let (alo, ahi) = (key(a0).min(key(a1)), key(a0).max(key(a1)));
        let (blo, bhi) = (key(b0).min(key(b1)), key(b0).max(key(b1)));
        let f = |c: bool, d: i8| if c { d } else { -1 };
        m.0[0][0] = f(alo.max(blo) < ahi.min(bhi), 1);
        m.0[0][1] = f((blo > alo && blo < ahi) || (bhi > alo && bhi < ahi), 0);
        m.0[1][0] = f((alo > blo && alo < bhi) || (ahi > blo && ahi < bhi), 0);
        m.0[1][1] = f(alo == blo || alo == bhi || ahi == blo || ahi == bhi, 0);
        m.0[0][2] = f(alo < blo || ahi > bhi, 1);
        m.0[2][0] = f(blo < alo || bhi > ahi, 1);
        m.0[1][2] = f(alo < blo || alo > bhi || ahi < blo || ahi > bhi, 0);
        m.0[2][1] = f(blo < alo || blo > ahi || bhi < alo || bhi > ahi, 0);
        return m;
    }
    // different supporting lines: at most one common point
    let within = |p: P2, s0: P2, s1: P2| p.0 >= s0.0.min(s1.0) && p.0 <= s0.0.max(s1.0) && p.1 >= s0.1.min(s1.1) && p.1 <= s0.1.max(s1.1);
    let common = if o3 == 0 && within(a0, b0, b1) {
        Some(a0)
    } else if o4 == 0 && within(a1, b0, b1) {
        Some(a1)
    } else if o1 == 0 && within(b0, a0, a1) {
        Some(b0)
    } else if o2 == 0 && within(b1, a0, a1) {
        Some(b1)
    } else {
        None
    };
    match common {
        Some(x) => {
            let pa = if x == a0 || x == a1 { 1 } else { 0 };
            let pb = if x == b0 || x == b1 { 1 } else { 0 };
            m.0[pa][pb] = 0;
        }
        None => {
            if o1 * o2 < 0 && o3 * o4 < 0 {
                m.0[0][0] = 0;
            }
        }
    }
    m
}

/// exact value (rounded once) of the orientation determinant of (a, b, c)
fn det_f64(a: P2, b: P2, c: P2) -> f64 {
    use crate::exact::big::Dy;
    let d = |v: f64| Dy::from_f64(v);
    let l = d(b.0).sub(&d(a.0)).mul(&d(c.1).sub(&d(a.1)));
    let r = d(b.1).sub(&d(a.1)).mul(&d(c.0).sub(&d(a.0)));
    l.sub(&r).to_f64()
}

/// How far (in units of the ulp of the largest coordinate) the nearest end point that is NOT on the other segment's line lies
/// from that line; None when every end point is either exactly on the other line or more than 2^30 ulp away.
fn seg_offline_ulps(s: &[P2; 4]) -> Option<f64> {
    let m = s.iter().map(|p| p.0.abs().max(p.1.abs())).fold(0.0, f64::max);
    let ulp = m * f64::EPSILON;
    let mut best: Option<f64> = None;
    for (e, l0, l1) in [(s[0], s[2], s[3]), (s[1], s[2], s[3]), (s[2], s[0], s[1]), (s[3], s[0], s[1])] {
        let det = det_f64(l0, l1, e).abs();
        if det == 0.0 {
            continue;
        }
        let dist = det / (l1.0 - l0.0).hypot(l1.1 - l0.1);
        let u = dist / ulp;
        if best.map_or(true, |b| u < b) {
            best = Some(u);
        }
    }
    best.filter(|u| *u <= (1u64 << 30) as f64)
}

fn nudge(x: f64, n: i64) -> f64 {
    if n == 0 {
        x
    } else if x == 0.0 {
        n as f64 * 2f64.powi(-60)
    } else {
        f64::from_bits((x.to_bits() as i64 + n) as u64)
    }
}

/// Two segments with double coordinates that are NOT images of a small lattice: generic doubles, end points a few (or a few
/// thousand) ulp off the other segment, shared end points with nearly parallel directions, nearly equal segments, directions
/// of mixed magnitude, and exactly collinear dyadic configurations.
fn seg_strategy() -> impl Strategy<Value = [P2; 4]> {
    let coord = || {
        prop_oneof![
            3 => (-64i32..=64).prop_map(|k| k as f64 / 8.0),
            3 => -8.0f64..8.0,
            1 => (-8.0f64..8.0).prop_map(|v| 1.0e6 + v),
            1 => (-8.0f64..8.0).prop_map(|v| v * 1.0e-3),
        ]
    };
    let pt = move || (coord(), coord());
    // ulp steps: none, a few, or a power of two up to 2^24
    let step = || prop_oneof![2 => Just(0i64), 2 => -3i64..=3, 5 => (2u32..=24, any::<bool>()).prop_map(|(k, neg)| if neg { -(1i64 << k) } else { 1i64 << k })];
    (prop_oneof![Just(0u8), Just(1u8), Just(1u8), Just(2u8), Just(2u8), Just(3u8), Just(3u8), Just(4u8), Just(4u8), Just(5u8), Just(6u8), Just(6u8)], pt(), pt(), pt(), pt(), (step(), step(), step(), step()), (0.0f64..=1.0, 0u8..4), (-6i32..=6, -6i32..=6, -6i32..=6, -6i32..=6))
        .prop_filter_map("degenerate segment", |(mode, b0, b1, r, r2, (n0, n1, n2, n3), (t, tsel), (i0, i1, i2, i3))| {
            let t = match tsel { 0 => 0.0, 1 => 1.0, 2 => 0.5, _ => t };
            let on_b = (b0.0 + t * (b1.0 - b0.0), b0.1 + t * (b1.1 - b0.1));
            let s: [P2; 4] = match mode {
                0 => [r, r2, b0, b1],
                // an end point on / next to the other segment, the far end anywhere or mirrored to the other side
                1 => [(nudge(on_b.0, n0), nudge(on_b.1, n1)), r, b0, b1],
                2 => [(nudge(on_b.0, n0), nudge(on_b.1, n1)), (2.0 * on_b.0 - r.0, 2.0 * on_b.1 - r.1), b0, b1],
                // a shared end point, nearly (or exactly) parallel directions
                3 => {
                    let k = [0.5, 1.0, 2.0, 1.5][tsel as usize];
                    [b0, (nudge(b0.0 + k * (b1.0 - b0.0), n0), nudge(b0.1 + k * (b1.1 - b0.1), n1)), b0, b1]
                }
                // nearly equal segments
                4 => [(nudge(b0.0, n0), nudge(b0.1, n1)), (nudge(b1.0, n2), nudge(b1.1, n3)), b0, b1],
                // directions of mixed magnitude: far ends a tiny distance apart next to the origin, or the apex far away
                5 => {
                    let tiny = [1e-20, 1e-17, 2f64.powi(-60), 1e-9][tsel as usize];
                    let apex = if n0 & 1 == 0 { (1.0, 1.0) } else { (1e17, 1e17) };
                    [apex, (tiny * i0 as f64, i1 as f64 * 0.5), apex, (tiny * i2 as f64, i1 as f64 * 0.5 + (i3 / 6) as f64)]
                }
                // exactly collinear (dyadic steps along one direction), overlapping / touching / apart / contained
                _ => {
                    let d = ((i0 as f64) / 4.0, (i1 as f64) / 4.0);
                    let at = |k: i32| (b0.0.round() + k as f64 * d.0, b0.1.round() + k as f64 * d.1);
                    [at(0), at(i2.abs() + 1), at(i3), at(i3 + (n0.rem_euclid(5) as i32) + 1)]
                }
            };
            let fin = s.iter().all(|p| p.0.is_finite() && p.1.is_finite());
            if !fin || s[0] == s[1] || s[2] == s[3] {
                return None;
            }
            Some(s)
        })
}

fn check_seg(s: &[P2; 4], obs: &mut Obs) {
    use geo::{Coord, Line, LineString, MultiLineString};
    if !s.iter().all(|p| p.0.is_finite() && p.1.is_finite() && p.0.abs() <= 1e100 && p.1.abs() <= 1e100) || s[0] == s[1] || s[2] == s[3] {
        obs.label("skipped:out-of-domain");
        return;
    }
    obs.label("segments-in-doubles");
    let want = seg_matrix(s[0], s[1], s[2], s[3]);
    debug_assert_eq!(seg_matrix(s[2], s[3], s[0], s[1]), want.transpose());
    let shape = if want.0[0][0] == 1 { "collinear-overlap" } else if want.0[0][0] == 0 { "proper-crossing" } else if want.0[1][1] == 0 || want.0[0][1] == 0 || want.0[1][0] == 0 { "end-point-contact" } else { "disjoint" };
    obs.label(format!("seg:{shape}"));
    if shape != "disjoint" {
        obs.nontrivial();
    }
    // input class for the known-findings matcher: some end point lies off the other segment's line by no more than a few
    // ulp of the largest coordinate (but not on it): coincidences that exist only after rounding
    let off = seg_offline_ulps(s);
    let cls = match off {
        Some(u) if u <= 4.0 => "|an-end-point-within-4-ulp-of-the-other-line",
        _ => "",
    };
    match off {
        Some(u) if u <= 4.0 => obs.label("seg:off-line<=4ulp"),
        Some(u) if u <= 1024.0 => obs.label("seg:off-line<=2^10ulp"),
        Some(_) => obs.label("seg:off-line<=2^30ulp"),
        None => obs.label("seg:well-separated-or-exactly-on"),
    }
    let c = |p: P2| Coord { x: p.0, y: p.1 };
    let (la, lb) = (Line::new(c(s[0]), c(s[1])), Line::new(c(s[2]), c(s[3])));
    let (sa, sb) = (LineString::from(vec![c(s[0]), c(s[1])]), LineString::from(vec![c(s[3]), c(s[2])]));
    let (ma, gb) = (MultiLineString::new(vec![sa.clone()]), geo::Geometry::Line(lb));
    let ctx = || format!("A=LINE({:?} {:?},{:?} {:?}) B=LINE({:?} {:?},{:?} {:?}) nearest off-line end point: {:?} ulp", s[0].0, s[0].1, s[1].0, s[1].1, s[2].0, s[2].1, s[3].0, s[3].1, off);
    let runs: Vec<(&str, Result<Matrix, crate::engine::PanicInfo>, bool)> = vec![
        ("Line/Line", guard(std::panic::AssertUnwindSafe(|| matrix_of(&la.relate(&lb)))), false),
        ("Line/Line(transposed)", guard(std::panic::AssertUnwindSafe(|| matrix_of(&lb.relate(&la)))), true),
        ("LineString/LineString(reversed)", guard(std::panic::AssertUnwindSafe(|| matrix_of(&sa.relate(&sb)))), false),
        ("MultiLineString/Geometry", guard(std::panic::AssertUnwindSafe(|| matrix_of(&ma.relate(&gb)))), false),
        ("Geometry/LineString", guard(std::panic::AssertUnwindSafe(|| matrix_of(&gb.relate(&sa)))), true),
    ];
    for (name, r, transposed) in runs {
        let w = if transposed { want.transpose() } else { want.clone() };
        match r {
            Ok(m) => {
                obs.cmp();
                if m != w {
                    obs.fail(format!("relate[segments-in-doubles{cls}]:{name}|matrix"), format!("got {} want {} ({shape}); {}", m.to_string9(), w.to_string9(), ctx()));
                }
            }
            Err(p) => obs.fail(format!("relate[segments-in-doubles{cls}]:{name}|panic|{}", p.site()), format!("{} {}", p, ctx())),
        }
    }
}

pub fn relate_concrete(ga: &geo::Geometry<f64>, gb: &geo::Geometry<f64>) -> Result<Matrix, crate::engine::PanicInfo> {
    guard(std::panic::AssertUnwindSafe(|| {
        with_concrete!(ga, a => with_concrete!(gb, b => matrix_of(&a.relate(b))))
    }))
}
pub fn relate_enum(ga: &geo::Geometry<f64>, gb: &geo::Geometry<f64>) -> Result<Matrix, crate::engine::PanicInfo> {
    guard(std::panic::AssertUnwindSafe(|| matrix_of(&ga.relate(gb))))
}

/// bbox relation of two model geometries
pub fn bbox_class(a: &G, b: &G) -> &'static str {
    match (a.bbox(), b.bbox()) {
        (Some((a0, a1)), Some((b0, b1))) => {
            if a1.0 < b0.0 || b1.0 < a0.0 || a1.1 < b0.1 || b1.1 < a0.1 {
                "bbox:disjoint"
            } else if (a0.0 < b0.0 && a0.1 < b0.1 && a1.0 > b1.0 && a1.1 > b1.1)
                || (b0.0 < a0.0 && b0.1 < a0.1 && b1.0 > a1.0 && b1.1 > a1.1)
            {
                "bbox:nested"
            } else {
                "bbox:overlap"
            }
        }
        _ => "bbox:empty-operand",
    }
}

/// coincidence-class labels shared by the relate-family properties
pub fn coincidence_labels(a: &G, b: &G, info: &ArrInfo, obs: &mut Obs) {
    if info.shared_vertex {
        obs.label("co:shared-vertex");
    }
    if info.vertex_on_edge {
        obs.label("co:vertex-on-edge");
    }
    if info.collinear_overlap {
        obs.label("co:collinear-overlap");
    }
    if info.proper_crossing {
        obs.label("co:proper-crossing");
    }
    for (g, _o) in [(a, b), (b, a)] {
        let mut p = vec![];
        let mut l = vec![];
        let mut polys = vec![];
        g.parts(&mut p, &mut l, &mut polys);
        // hole tangent to shell / to another hole
        for po in &polys {
            let mut tangent = false;
            for (i, h) in po.holes.iter().enumerate() {
                for v in &h[..h.len().saturating_sub(1)] {
                    if po.ext.windows(2).any(|w| crate::exact::on_segment_int(w[0], w[1], *v)) {
                        tangent = true;
                    }
                    for (j, h2) in po.holes.iter().enumerate() {
                        if i != j && h2.windows(2).any(|w| crate::exact::on_segment_int(w[0], w[1], *v)) {
                            tangent = true;
                        }
                    }
                }
            }
            if tangent {
                obs.label("co:hole-tangent");
            }
        }
        // a vertex of one ring strictly inside an edge of another ring (of the same polygon or of another member)
        {
            let rings: Vec<&Vec<crate::exact::C>> = polys.iter().flat_map(|p| p.rings()).collect();
            let touch = rings.iter().enumerate().any(|(i, r)| r[..r.len().saturating_sub(1)].iter().any(|v| {
                rings.iter().enumerate().any(|(j, q)| i != j && q.windows(2).any(|w| *v != w[0] && *v != w[1] && crate::exact::on_segment_int(w[0], w[1], *v)))
            }));
            if touch {
                obs.label("co:ring-vertex-inside-an-edge-of-another-ring");
            }
        }
        for po in &polys {
            if !po.holes.is_empty() {
                obs.label("has-hole");
            }
        }
        // endpoint degrees of the line work
        let mut ends: Vec<crate::exact::C> = vec![];
        for m in &l {
            if m.len() >= 2 && m.first() != m.last() {
                ends.push(m[0]);
                ends.push(*m.last().unwrap());
            }
        }
        ends.sort();
        let mut i = 0;
        while i < ends.len() {
            let mut j = i;
            while j < ends.len() && ends[j] == ends[i] {
                j += 1;
            }
            match j - i {
                2 => obs.label("co:endpoint-degree-2"),
                3 => obs.label("co:endpoint-degree-3"),
                n if n >= 4 => obs.label("co:endpoint-degree-4+"),
                _ => {}
            }
            i = j;
        }
        if l.iter().any(|m| m.len() >= 3 && m.first() == m.last()) {
            obs.label("closed-linestring");
        }
    }
    // one operand inside a hole of the other
    for (g, o) in [(a, b), (b, a)] {
        let mut p = vec![];
        let mut l = vec![];
        let mut polys = vec![];
        g.parts(&mut p, &mut l, &mut polys);
        if polys.iter().any(|po| !po.holes.is_empty()) {
            if let Some(c) = o.coords().first() {
                let hp = crate::exact::HP::int(*c);
                for po in &polys {
                    for h in &po.holes {
                        let hole_poly = G::Polygon(crate::refgeom::Poly::new(h.clone(), vec![]));
                        if Located::new(&hole_poly).locate(hp) == Loc::I {
                            obs.label("co:operand-in-hole");
                        }
                    }
                }
            }
        }
    }
    obs.label(bbox_class(a, b));
    if a.is_empty() || b.is_empty() {
        obs.label("empty-operand");
    }
}

impl Property for C01 {
    type Case = Case;
    const ID: &'static str = "C01";

    fn strategy(_tier: Tier) -> BoxedStrategy<Case> {
        let general = (pair_strategy(), xf_strategy(), any::<u64>()).prop_map(|(Pair { a, b }, xf, vsel)| Case { a, b, xf, vsel, seg: None, trusted: true });
        // thin wedges at large magnitude (1 case in 16): two edges leaving a shared vertex in nearly - or exactly - the same
        // direction, with coordinates around 2^26..2^28 so that products of coordinate differences exceed 2^53 (a plain f64 cross
        // product cannot order the edge ends around the node; the exact oracle works on the integers). Only D4 symmetries are
        // applied: scalings and translations would not stay exact in f64 at this magnitude.
        let big = || (1i64 << 26)..(1i64 << 28);
        // P = t (u,v) + e and P' = (t+m) (u,v) + e: cross(P, P') = -m cross((u,v), e) is tiny although both vectors are huge
        let wedge = ((prop_oneof![2 => (1i64 << 26)..(1i64 << 27), 1 => (1i64 << 11)..(1i64 << 12)], (-3i64..4, -3i64..4), (-2i64..3, -2i64..3), -3i64..4), (-3i64..4, -3i64..4), (big(), big()), 0u8..2, prop_oneof![Just(0u8), Just(1u8), Just(3u8)], 0u8..8, any::<u64>()).prop_filter_map(
            "degenerate wedge",
            |((t, uv, e, m), o, (sx, sy), ka, kb, d4, vsel)| {
                if uv == (0, 0) {
                    return None;
                }
                let pv = (t * uv.0 + e.0, t * uv.1 + e.1);
                let pw = ((t + m) * uv.0 + e.0, (t + m) * uv.1 + e.1);
                // a third direction, roughly perpendicular, and its opposite
                let side = (-pv.1 / 2 + sx % 1024, pv.0 / 2 + sy % 1024);
                let at = |v: (i64, i64)| (o.0 + v.0, o.1 + v.1);
                let org = at((0, 0));
                let a = match ka {
                    0 => G::Line(org, at(pv)),
                    1 => G::LineString(vec![at(side), org, at(pv)]),
                    2 => G::Triangle(org, at(pv), at(side)),
                    _ => G::Polygon(crate::refgeom::Poly::new(vec![org, at(pv), at((pv.0 + side.0, pv.1 + side.1)), at(side), org], vec![])),
                };
                let b = match kb {
                    0 => G::Line(org, at(pw)),
                    1 => G::LineString(vec![at((-side.0, -side.1)), org, at(pw)]),
                    2 => G::Triangle(org, at(pw), at((-side.0, -side.1))),
                    _ => G::Line(at(pw), org),
                };
                if !(in_relate_domain(&a) && in_relate_domain(&b)) {
                    return None;
                }
                Some(Case { a, b, xf: Xf { d4, k: 0, tx: 0, ty: 0 }, vsel, seg: None, trusted: true })
            },
        );
        let segs = seg_strategy().prop_map(|s| Case { a: G::MultiPoint(vec![]), b: G::MultiPoint(vec![]), xf: Xf::ID, vsel: 0, seg: Some(s), trusted: true });
        prop_oneof![15 => general.boxed(), 1 => wedge.boxed(), 1 => segs.boxed()].boxed()
    }

    fn quota(tier: Tier) -> u64 {
        tier.pick(1_200_000, 24_000_000)
    }

    fn rule() -> String {
        "Ordered pairs (A,B) of valid model geometries over all 10 types + collections, built on a <=6x6 board \
         (polyomino outlines with holes/pinch vertices, hulls, star rings, lattice line work, points), B \
         coincidence-biased towards A's vertices/edge points/cell masks, pushed through a random invertible integer \
         matrix and an exact similarity (D4, 2^k, integer translation up to 2^40). Oracle: exact DE-9IM by cell \
         decomposition of the joint arrangement. Checked: concrete-type relate, enum relate, transpose, and 2 \
         re-representations per operand. Non-trivial = envelopes intersect AND some node or sub-segment of the joint \
         arrangement belongs to both operands (they really touch or cross). Distinct = distinct serialised case. Sub-families \
         (1 case in 17 each): thin wedges at magnitude 2^26..2^28 (and f32-sized, with relate::<f32>), and SEGMENTS IN DOUBLES - two \
         segments with arbitrary double end points (generic, an end point 0..2^24 ulp off the other segment, shared end point with \
         nearly parallel directions, nearly equal, mixed magnitude, exactly collinear dyadic), decided by exact orientation signs on \
         the doubles and compared through Line / LineString / MultiLineString / Geometry in both orders."
            .into()
    }

    fn assumptions() -> Vec<String> {
        vec![
            "inputs are exact similarity images of small-integer lattice geometries; generic double coordinates are covered for pairs of single segments only (sub-family segments in doubles)".into(),
            "reference DE-9IM is computed by the harness's own exact cell decomposition (i128 rationals)".into(),
        ]
    }

    fn must_hit() -> Vec<&'static str> {
        vec![
            "co:shared-vertex",
            "co:vertex-on-edge",
            "co:collinear-overlap",
            "co:proper-crossing",
            "co:hole-tangent",
            "co:endpoint-degree-2",
            "co:endpoint-degree-3",
            "co:operand-in-hole",
            "bbox:disjoint",
            "bbox:nested",
            "empty-operand",
            "thin-wedge-at-2^26..2^28",
            "segments-in-doubles",
            "seg:off-line<=4ulp",
            "seg:off-line<=2^10ulp",
        ]
    }

    fn show(c: &Case) -> Value {
        match &c.seg {
            Some(s) => json!({"segments": s}),
            None => json!({"a": wkt(&c.a), "b": wkt(&c.b), "xf": c.xf, "vsel": c.vsel}),
        }
    }

    fn check(c: &Case, obs: &mut Obs) {
        if let Some(s) = &c.seg {
            check_seg(s, obs);
            return;
        }
        if !c.trusted && !(in_relate_domain(&c.a) && in_relate_domain(&c.b)) {
            obs.label("skipped:out-of-domain");
            return;
        }
        let (want, info) = de9im_info(&c.a, &c.b);
        let (ta, tb) = (c.a.type_name(), c.b.type_name());
        obs.label(format!("tp:{ta}/{tb}"));
        coincidence_labels(&c.a, &c.b, &info, obs);
        obs.label(c.xf.label());
        if c.a.coords().iter().chain(c.b.coords().iter()).any(|q| q.0.abs() >= 1 << 25 || q.1.abs() >= 1 << 25) {
            obs.label("thin-wedge-at-2^26..2^28");
        } else if c.a.coords().iter().chain(c.b.coords().iter()).any(|q| q.0.abs() >= 1 << 10 || q.1.abs() >= 1 << 10) {
            obs.label("thin-wedge-at-2^11..2^14(f32)");
        }
        if bbox_class(&c.a, &c.b) != "bbox:disjoint" && info.touching {
            obs.nontrivial();
        }
        let ga = to_geo(&c.a, &c.xf);
        let gb = to_geo(&c.b, &c.xf);
        let ctx = || format!("A={} B={} xf={:?}", wkt(&c.a), wkt(&c.b), c.xf);

        // input class for the known-findings matcher: an edge of one operand runs (not collinearly) through a point where two
        // rings of the OTHER operand touch, one with a vertex strictly inside an edge of the other - the JTS-style shortcut for
        // "proper" boundary crossings of two areas then assumes that the boundary enters the exterior there
        let cls = {
            let touch_points = |g: &G| -> Vec<(crate::exact::C, (crate::exact::C, crate::exact::C))> {
                let (mut p0, mut l0, mut po) = (vec![], vec![], vec![]);
                g.parts(&mut p0, &mut l0, &mut po);
                let rings: Vec<&Vec<crate::exact::C>> = po.iter().flat_map(|p| p.rings()).collect();
                let mut out = vec![];
                for (i, r) in rings.iter().enumerate() {
                    for v in &r[..r.len().saturating_sub(1)] {
                        for (j, q) in rings.iter().enumerate() {
                            if i != j {
                                for w in q.windows(2) {
                                    if *v != w[0] && *v != w[1] && crate::exact::on_segment_int(w[0], w[1], *v) {
                                        out.push((*v, (w[0], w[1])));
                                    }
                                }
                            }
                        }
                    }
                }
                out
            };
            let through = |tps: &Vec<(crate::exact::C, (crate::exact::C, crate::exact::C))>, other: &G| -> bool {
                let cross = |a: crate::exact::C, b: crate::exact::C, c: crate::exact::C| (b.0 - a.0) * (c.1 - a.1) - (b.1 - a.1) * (c.0 - a.0);
                tps.iter().any(|(t, e)| other.segments().iter().any(|s| s.0 != s.1 && *t != s.0 && *t != s.1 && crate::exact::on_segment_int(s.0, s.1, *t) && cross(e.0, e.1, s.0) != 0))
            };
            if (c.a.dim() == 2 && c.b.dim() == 2) && (through(&touch_points(&c.a), &c.b) || through(&touch_points(&c.b), &c.a)) {
                obs.label("co:area-edge-through-a-touch-point-of-the-other-area");
                "[area-edge-through-a-touch-point-of-the-other-area]"
            } else {
                ""
            }
        };
        // (1) concrete relate equals the oracle
        let got = match relate_concrete(&ga, &gb) {
            Ok(m) => m,
            Err(p) => {
                obs.fail(format!("relate:{ta}/{tb}|panic|{}", p.site()), format!("{} {}", p, ctx()));
                return;
            }
        };
        obs.cmp();
        if got != want {
            obs.fail(
                format!("relate{cls}:{ta}/{tb}|matrix"),
                format!("relate = {} but true DE-9IM = {}; {}", got.to_string9(), want.to_string9(), ctx()),
            );
        }
        // (2) other order = transpose
        match relate_concrete(&gb, &ga) {
            Ok(m) => {
                obs.cmp();
                if m != want.transpose() {
                    obs.fail(
                        format!("relate{cls}:{tb}/{ta}|matrix"),
                        format!("relate(B,A) = {} but true = {}; {}", m.to_string9(), want.transpose().to_string9(), ctx()),
                    );
                }
            }
            Err(p) => obs.fail(format!("relate:{tb}/{ta}|panic|{}", p.site()), format!("{} {}", p, ctx())),
        }
        // (3) Geometry enum path
        match relate_enum(&ga, &gb) {
            Ok(m) => {
                obs.cmp();
                if m != got {
                    obs.fail(
                        format!("relate-enum:{ta}/{tb}|differs-from-concrete"),
                        format!("enum {} vs concrete {}; {}", m.to_string9(), got.to_string9(), ctx()),
                    );
                }
            }
            Err(p) => obs.fail(format!("relate-enum:{ta}/{tb}|panic|{}", p.site()), format!("{} {}", p, ctx())),
        }
        // (3a) the f32 instantiation, when every coordinate is exactly representable in f32 (same point sets, same matrix)
        {
            use geo::{CoordsIter, MapCoords};
            let fits = |g: &geo::Geometry<f64>| g.coords_iter().all(|c| (c.x as f32) as f64 == c.x && (c.y as f32) as f64 == c.y);
            if fits(&ga) && fits(&gb) {
                let narrow = |g: &geo::Geometry<f64>| -> geo::Geometry<f32> { g.map_coords(|c| geo::Coord { x: c.x as f32, y: c.y as f32 }) };
                let (fa, fb) = (narrow(&ga), narrow(&gb));
                match guard(std::panic::AssertUnwindSafe(|| matrix_of(&fa.relate(&fb)))) {
                    Ok(m) => {
                        obs.cmp();
                        obs.label("scalar:f32");
                        if m != want {
                            obs.fail(format!("relate{cls}<f32>:{ta}/{tb}|matrix"), format!("relate::<f32> = {} but true DE-9IM = {} (f64 gave {}); {}", m.to_string9(), want.to_string9(), got.to_string9(), ctx()));
                        }
                    }
                    Err(p) => obs.fail(format!("relate<f32>:{ta}/{tb}|panic|{}", p.site()), format!("{} {}", p, ctx())),
                }
            }
        }
        // (3b) one operand concrete, the other wrapped
        match guard(std::panic::AssertUnwindSafe(|| (with_concrete!(&ga, a => matrix_of(&a.relate(&gb))), with_concrete!(&gb, b => matrix_of(&ga.relate(b)))))) {
            Ok((m1, m2)) => {
                obs.cmp();
                if m1 != got || m2 != got {
                    obs.fail(
                        format!("relate-mixed:{ta}/{tb}|differs-from-concrete"),
                        format!("concrete/enum {} enum/concrete {} vs concrete {}; {}", m1.to_string9(), m2.to_string9(), got.to_string9(), ctx()),
                    );
                }
            }
            Err(p) => obs.fail(format!("relate-mixed:{ta}/{tb}|panic|{}", p.site()), format!("{} {}", p, ctx())),
        }
        // (4) re-representations of the same point sets (checked against the oracle AND geo itself)
        for r in 0..4u64 {
            let sel = crate::engine::splitmix64(c.vsel ^ r);
            let (va, vb) = match r {
                0 => (variant(&c.a, sel), c.b.clone()),
                1 => (c.a.clone(), variant(&c.b, sel)),
                // representation noise: a repeated vertex, an empty member (still valid, same point set)
                2 => (crate::conv::noisy(&c.a, sel), c.b.clone()),
                _ => (c.a.clone(), crate::conv::noisy(&c.b, sel)),
            };
            if r >= 2 {
                if va == c.a && vb == c.b {
                    continue;
                }
                obs.label("variant:noise");
            }
            if !(in_relate_domain(&crate::conv::denoise(&va)) && in_relate_domain(&crate::conv::denoise(&vb))) {
                continue;
            }
            let (gva, gvb) = (to_geo(&va, &c.xf), to_geo(&vb, &c.xf));
            let (tva, tvb) = (va.type_name(), vb.type_name());
            match relate_concrete(&gva, &gvb) {
                Ok(m) => {
                    obs.cmp();
                    if m != want {
                        obs.fail(
                            format!("relate{cls}:{tva}/{tvb}|matrix"),
                            format!(
                                "re-representation: relate = {} but true DE-9IM = {} (original representation gave {}); A'={} B'={} xf={:?}",
                                m.to_string9(), want.to_string9(), got.to_string9(), wkt(&va), wkt(&vb), c.xf
                            ),
                        );
                    }
                }
                Err(p) => obs.fail(format!("relate:{tva}/{tvb}|panic|{}", p.site()), format!("{} A'={} B'={}", p, wkt(&va), wkt(&vb))),
            }
        }
    }
}
