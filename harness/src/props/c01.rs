//! C01 — relate() returns the true DE-9IM matrix.
use crate::conv::{matrix_of, to_geo, variant, wkt, Xf};
use crate::engine::{guard, Obs, Property, Tier};
use crate::gen::{pair_strategy, xf_strategy, Pair};
use crate::refgeom::de9im::{de9im_info, ArrInfo};
use crate::refgeom::validity::in_relate_domain;
use crate::refgeom::{Loc, Located, Matrix, G};
use crate::with_concrete;
use geo::Relate;
use proptest::prelude::*;
use serde::{Deserialize, Serialize};
use serde_json::{json, Value};

#[derive(Clone, Debug, Serialize, Deserialize)]
pub struct Case {
    pub a: G,
    pub b: G,
    pub xf: Xf,
    pub vsel: u64,
    #[serde(skip)]
    pub trusted: bool,
}

pub struct C01;

pub fn relate_concrete(ga: &geo::Geometry<f64>, gb: &geo::Geometry<f64>) -> Result<Matrix, crate::engine::PanicInfo> {
    guard(std::panic::AssertUnwindSafe(|| {
        with_concrete!(ga, a => with_concrete!(gb, b => matrix_of(&a.relate(b))))
    }))
}
pub fn relate_enum(ga: &geo::Geometry<f64>, gb: &geo::Geometry<f64>) -> Result<Matrix, crate::engine::PanicInfo> {
    guard(std::panic::AssertUnwindSafe(|| matrix_of(&ga.relate(gb))))
}

/// bbox relation of two model geometries
pub fn bbox_class(a: &G, b: &G) -> &'static str {
    match (a.bbox(), b.bbox()) {
        (Some((a0, a1)), Some((b0, b1))) => {
            if a1.0 < b0.0 || b1.0 < a0.0 || a1.1 < b0.1 || b1.1 < a0.1 {
                "bbox:disjoint"
            } else if (a0.0 < b0.0 && a0.1 < b0.1 && a1.0 > b1.0 && a1.1 > b1.1)
                || (b0.0 < a0.0 && b0.1 < a0.1 && b1.0 > a1.0 && b1.1 > a1.1)
            {
                "bbox:nested"
            } else {
                "bbox:overlap"
            }
        }
        _ => "bbox:empty-operand",
    }
}

/// coincidence-class labels shared by the relate-family properties
pub fn coincidence_labels(a: &G, b: &G, info: &ArrInfo, obs: &mut Obs) {
    if info.shared_vertex {
        obs.label("co:shared-vertex");
    }
    if info.vertex_on_edge {
        obs.label("co:vertex-on-edge");
    }
    if info.collinear_overlap {
        obs.label("co:collinear-overlap");
    }
    if info.proper_crossing {
        obs.label("co:proper-crossing");
    }
    for (g, _o) in [(a, b), (b, a)] {
        let mut p = vec![];
        let mut l = vec![];
        let mut polys = vec![];
        g.parts(&mut p, &mut l, &mut polys);
        // hole tangent to shell / to another hole
        for po in &polys {
            let mut tangent = false;
            for (i, h) in po.holes.iter().enumerate() {
                for v in &h[..h.len().saturating_sub(1)] {
                    if po.ext.windows(2).any(|w| crate::exact::on_segment_int(w[0], w[1], *v)) {
                        tangent = true;
                    }
                    for (j, h2) in po.holes.iter().enumerate() {
                        if i != j && h2.windows(2).any(|w| crate::exact::on_segment_int(w[0], w[1], *v)) {
                            tangent = true;
                        }
                    }
                }
            }
            if tangent {
                obs.label("co:hole-tangent");
            }
        }
        // a vertex of one ring strictly inside an edge of another ring (of the same polygon or of another member)
        {
            let rings: Vec<&Vec<crate::exact::C>> = polys.iter().flat_map(|p| p.rings()).collect();
            let touch = rings.iter().enumerate().any(|(i, r)| r[..r.len().saturating_sub(1)].iter().any(|v| {
                rings.iter().enumerate().any(|(j, q)| i != j && q.windows(2).any(|w| *v != w[0] && *v != w[1] && crate::exact::on_segment_int(w[0], w[1], *v)))
            }));
            if touch {
                obs.label("co:ring-vertex-inside-an-edge-of-another-ring");
            }
        }
        for po in &polys {
            if !po.holes.is_empty() {
                obs.label("has-hole");
            }
        }
        // endpoint degrees of the line work
        let mut ends: Vec<crate::exact::C> = vec![];
        for m in &l {
            if m.len() >= 2 && m.first() != m.last() {
                ends.push(m[0]);
                ends.push(*m.last().unwrap());
            }
        }
        ends.sort();
        let mut i = 0;
        while i < ends.len() {
            let mut j = i;
            while j < ends.len() && ends[j] == ends[i] {
                j += 1;
            }
            match j - i {
                2 => obs.label("co:endpoint-degree-2"),
                3 => obs.label("co:endpoint-degree-3"),
                n if n >= 4 => obs.label("co:endpoint-degree-4+"),
                _ => {}
            }
            i = j;
        }
        if l.iter().any(|m| m.len() >= 3 && m.first() == m.last()) {
            obs.label("closed-linestring");
        }
    }
    // one operand inside a hole of the other
    for (g, o) in [(a, b), (b, a)] {
        let mut p = vec![];
        let mut l = vec![];
        let mut polys = vec![];
        g.parts(&mut p, &mut l, &mut polys);
        if polys.iter().any(|po| !po.holes.is_empty()) {
            if let Some(c) = o.coords().first() {
                let hp = crate::exact::HP::int(*c);
                for po in &polys {
                    for h in &po.holes {
                        let hole_poly = G::Polygon(crate::refgeom::Poly::new(h.clone(), vec![]));
                        if Located::new(&hole_poly).locate(hp) == Loc::I {
                            obs.label("co:operand-in-hole");
                        }
                    }
                }
            }
        }
    }
    obs.label(bbox_class(a, b));
    if a.is_empty() || b.is_empty() {
        obs.label("empty-operand");
    }
}

impl Property for C01 {
    type Case = Case;
    const ID: &'static str = "C01";

    fn strategy(_tier: Tier) -> BoxedStrategy<Case> {
        let general = (pair_strategy(), xf_strategy(), any::<u64>()).prop_map(|(Pair { a, b }, xf, vsel)| Case { a, b, xf, vsel, trusted: true });
        // thin wedges at large magnitude (1 case in 16): two edges leaving a shared vertex in nearly - or exactly - the same
        // direction, with coordinates around 2^26..2^28 so that products of coordinate differences exceed 2^53 (a plain f64 cross
        // product cannot order the edge ends around the node; the exact oracle works on the integers). Only D4 symmetries are
        // applied: scalings and translations would not stay exact in f64 at this magnitude.
        let big = || (1i64 << 26)..(1i64 << 28);
        // P = t (u,v) + e and P' = (t+m) (u,v) + e: cross(P, P') = -m cross((u,v), e) is tiny although both vectors are huge
        let wedge = ((prop_oneof![2 => (1i64 << 26)..(1i64 << 27), 1 => (1i64 << 11)..(1i64 << 12)], (-3i64..4, -3i64..4), (-2i64..3, -2i64..3), -3i64..4), (-3i64..4, -3i64..4), (big(), big()), 0u8..2, prop_oneof![Just(0u8), Just(1u8), Just(3u8)], 0u8..8, any::<u64>()).prop_filter_map(
            "degenerate wedge",
            |((t, uv, e, m), o, (sx, sy), ka, kb, d4, vsel)| {
                if uv == (0, 0) {
                    return None;
                }
                let pv = (t * uv.0 + e.0, t * uv.1 + e.1);
                let pw = ((t + m) * uv.0 + e.0, (t + m) * uv.1 + e.1);
                // a third direction, roughly perpendicular, and its opposite
                let side = (-pv.1 / 2 + sx % 1024, pv.0 / 2 + sy % 1024);
                let at = |v: (i64, i64)| (o.0 + v.0, o.1 + v.1);
                let org = at((0, 0));
                let a = match ka {
                    0 => G::Line(org, at(pv)),
                    1 => G::LineString(vec![at(side), org, at(pv)]),
                    2 => G::Triangle(org, at(pv), at(side)),
                    _ => G::Polygon(crate::refgeom::Poly::new(vec![org, at(pv), at((pv.0 + side.0, pv.1 + side.1)), at(side), org], vec![])),
                };
                let b = match kb {
                    0 => G::Line(org, at(pw)),
                    1 => G::LineString(vec![at((-side.0, -side.1)), org, at(pw)]),
                    2 => G::Triangle(org, at(pw), at((-side.0, -side.1))),
                    _ => G::Line(at(pw), org),
                };
                if !(in_relate_domain(&a) && in_relate_domain(&b)) {
                    return None;
                }
                Some(Case { a, b, xf: Xf { d4, k: 0, tx: 0, ty: 0 }, vsel, trusted: true })
            },
        );
        prop_oneof![15 => general.boxed(), 1 => wedge.boxed()].boxed()
    }

    fn quota(tier: Tier) -> u64 {
        tier.pick(1_200_000, 24_000_000)
    }

    fn rule() -> String {
        "Ordered pairs (A,B) of valid model geometries over all 10 types + collections, built on a <=6x6 board \
         (polyomino outlines with holes/pinch vertices, hulls, star rings, lattice line work, points), B \
         coincidence-biased towards A's vertices/edge points/cell masks, pushed through a random invertible integer \
         matrix and an exact similarity (D4, 2^k, integer translation up to 2^40). Oracle: exact DE-9IM by cell \
         decomposition of the joint arrangement. Checked: concrete-type relate, enum relate, transpose, and 2 \
         re-representations per operand. Non-trivial = envelopes intersect AND some node or sub-segment of the joint \
         arrangement belongs to both operands (they really touch or cross). Distinct = distinct serialised case."
            .into()
    }

    fn assumptions() -> Vec<String> {
        vec![
            "inputs are exact similarity images of small-integer lattice geometries; generic irrational-looking f64 coordinates are not covered".into(),
            "reference DE-9IM is computed by the harness's own exact cell decomposition (i128 rationals)".into(),
        ]
    }

    fn must_hit() -> Vec<&'static str> {
        vec![
            "co:shared-vertex",
            "co:vertex-on-edge",
            "co:collinear-overlap",
            "co:proper-crossing",
            "co:hole-tangent",
            "co:endpoint-degree-2",
            "co:endpoint-degree-3",
            "co:operand-in-hole",
            "bbox:disjoint",
            "bbox:nested",
            "empty-operand",
            "thin-wedge-at-2^26..2^28",
        ]
    }

    fn show(c: &Case) -> Value {
        json!({"a": wkt(&c.a), "b": wkt(&c.b), "xf": c.xf, "vsel": c.vsel})
    }

    fn check(c: &Case, obs: &mut Obs) {
        if !c.trusted && !(in_relate_domain(&c.a) && in_relate_domain(&c.b)) {
            obs.label("skipped:out-of-domain");
            return;
        }
        let (want, info) = de9im_info(&c.a, &c.b);
        let (ta, tb) = (c.a.type_name(), c.b.type_name());
        obs.label(format!("tp:{ta}/{tb}"));
        coincidence_labels(&c.a, &c.b, &info, obs);
        obs.label(c.xf.label());
        if c.a.coords().iter().chain(c.b.coords().iter()).any(|q| q.0.abs() >= 1 << 25 || q.1.abs() >= 1 << 25) {
            obs.label("thin-wedge-at-2^26..2^28");
        } else if c.a.coords().iter().chain(c.b.coords().iter()).any(|q| q.0.abs() >= 1 << 10 || q.1.abs() >= 1 << 10) {
            obs.label("thin-wedge-at-2^11..2^14(f32)");
        }
        if bbox_class(&c.a, &c.b) != "bbox:disjoint" && info.touching {
            obs.nontrivial();
        }
        let ga = to_geo(&c.a, &c.xf);
        let gb = to_geo(&c.b, &c.xf);
        let ctx = || format!("A={} B={} xf={:?}", wkt(&c.a), wkt(&c.b), c.xf);

        // input class for the known-findings matcher: an edge of one operand runs (not collinearly) through a point where two
        // rings of the OTHER operand touch, one with a vertex strictly inside an edge of the other - the JTS-style shortcut for
        // "proper" boundary crossings of two areas then assumes that the boundary enters the exterior there
        let cls = {
            let touch_points = |g: &G| -> Vec<(crate::exact::C, (crate::exact::C, crate::exact::C))> {
                let (mut p0, mut l0, mut po) = (vec![], vec![], vec![]);
                g.parts(&mut p0, &mut l0, &mut po);
                let rings: Vec<&Vec<crate::exact::C>> = po.iter().flat_map(|p| p.rings()).collect();
                let mut out = vec![];
                for (i, r) in rings.iter().enumerate() {
                    for v in &r[..r.len().saturating_sub(1)] {
                        for (j, q) in rings.iter().enumerate() {
                            if i != j {
                                for w in q.windows(2) {
                                    if *v != w[0] && *v != w[1] && crate::exact::on_segment_int(w[0], w[1], *v) {
                                        out.push((*v, (w[0], w[1])));
                                    }
                                }
                            }
                        }
                    }
                }
                out
            };
            let through = |tps: &Vec<(crate::exact::C, (crate::exact::C, crate::exact::C))>, other: &G| -> bool {
                let cross = |a: crate::exact::C, b: crate::exact::C, c: crate::exact::C| (b.0 - a.0) * (c.1 - a.1) - (b.1 - a.1) * (c.0 - a.0);
                tps.iter().any(|(t, e)| other.segments().iter().any(|s| s.0 != s.1 && *t != s.0 && *t != s.1 && crate::exact::on_segment_int(s.0, s.1, *t) && cross(e.0, e.1, s.0) != 0))
            };
            if (c.a.dim() == 2 && c.b.dim() == 2) && (through(&touch_points(&c.a), &c.b) || through(&touch_points(&c.b), &c.a)) {
                obs.label("co:area-edge-through-a-touch-point-of-the-other-area");
                "[area-edge-through-a-touch-point-of-the-other-area]"
            } else {
                ""
            }
        };
        // (1) concrete relate equals the oracle
        let got = match relate_concrete(&ga, &gb) {
            Ok(m) => m,
            Err(p) => {
                obs.fail(format!("relate:{ta}/{tb}|panic|{}", p.site()), format!("{} {}", p, ctx()));
                return;
            }
        };
        obs.cmp();
        if got != want {
            obs.fail(
                format!("relate{cls}:{ta}/{tb}|matrix"),
                format!("relate = {} but true DE-9IM = {}; {}", got.to_string9(), want.to_string9(), ctx()),
            );
        }
        // (2) other order = transpose
        match relate_concrete(&gb, &ga) {
            Ok(m) => {
                obs.cmp();
                if m != want.transpose() {
                    obs.fail(
                        format!("relate{cls}:{tb}/{ta}|matrix"),
                        format!("relate(B,A) = {} but true = {}; {}", m.to_string9(), want.transpose().to_string9(), ctx()),
                    );
                }
            }
            Err(p) => obs.fail(format!("relate:{tb}/{ta}|panic|{}", p.site()), format!("{} {}", p, ctx())),
        }
        // (3) Geometry enum path
        match relate_enum(&ga, &gb) {
            Ok(m) => {
                obs.cmp();
                if m != got {
                    obs.fail(
                        format!("relate-enum:{ta}/{tb}|differs-from-concrete"),
                        format!("enum {} vs concrete {}; {}", m.to_string9(), got.to_string9(), ctx()),
                    );
                }
            }
            Err(p) => obs.fail(format!("relate-enum:{ta}/{tb}|panic|{}", p.site()), format!("{} {}", p, ctx())),
        }
        // (3a) the f32 instantiation, when every coordinate is exactly representable in f32 (same point sets, same matrix)
        {
            use geo::{CoordsIter, MapCoords};
            let fits = |g: &geo::Geometry<f64>| g.coords_iter().all(|c| (c.x as f32) as f64 == c.x && (c.y as f32) as f64 == c.y);
            if fits(&ga) && fits(&gb) {
                let narrow = |g: &geo::Geometry<f64>| -> geo::Geometry<f32> { g.map_coords(|c| geo::Coord { x: c.x as f32, y: c.y as f32 }) };
                let (fa, fb) = (narrow(&ga), narrow(&gb));
                match guard(std::panic::AssertUnwindSafe(|| matrix_of(&fa.relate(&fb)))) {
                    Ok(m) => {
                        obs.cmp();
                        obs.label("scalar:f32");
                        if m != want {
                            obs.fail(format!("relate{cls}<f32>:{ta}/{tb}|matrix"), format!("relate::<f32> = {} but true DE-9IM = {} (f64 gave {}); {}", m.to_string9(), want.to_string9(), got.to_string9(), ctx()));
                        }
                    }
                    Err(p) => obs.fail(format!("relate<f32>:{ta}/{tb}|panic|{}", p.site()), format!("{} {}", p, ctx())),
                }
            }
        }
        // (3b) one operand concrete, the other wrapped
        match guard(std::panic::AssertUnwindSafe(|| (with_concrete!(&ga, a => matrix_of(&a.relate(&gb))), with_concrete!(&gb, b => matrix_of(&ga.relate(b)))))) {
            Ok((m1, m2)) => {
                obs.cmp();
                if m1 != got || m2 != got {
                    obs.fail(
                        format!("relate-mixed:{ta}/{tb}|differs-from-concrete"),
                        format!("concrete/enum {} enum/concrete {} vs concrete {}; {}", m1.to_string9(), m2.to_string9(), got.to_string9(), ctx()),
                    );
                }
            }
            Err(p) => obs.fail(format!("relate-mixed:{ta}/{tb}|panic|{}", p.site()), format!("{} {}", p, ctx())),
        }
        // (4) re-representations of the same point sets (checked against the oracle AND geo itself)
        for r in 0..4u64 {
            let sel = crate::engine::splitmix64(c.vsel ^ r);
            let (va, vb) = match r {
                0 => (variant(&c.a, sel), c.b.clone()),
                1 => (c.a.clone(), variant(&c.b, sel)),
                // representation noise: a repeated vertex, an empty member (still valid, same point set)
                2 => (crate::conv::noisy(&c.a, sel), c.b.clone()),
                _ => (c.a.clone(), crate::conv::noisy(&c.b, sel)),
            };
            if r >= 2 {
                if va == c.a && vb == c.b {
                    continue;
                }
                obs.label("variant:noise");
            }
            if !(in_relate_domain(&crate::conv::denoise(&va)) && in_relate_domain(&crate::conv::denoise(&vb))) {
                continue;
            }
            let (gva, gvb) = (to_geo(&va, &c.xf), to_geo(&vb, &c.xf));
            let (tva, tvb) = (va.type_name(), vb.type_name());
            match relate_concrete(&gva, &gvb) {
                Ok(m) => {
                    obs.cmp();
                    if m != want {
                        obs.fail(
                            format!("relate{cls}:{tva}/{tvb}|matrix"),
                            format!(
                                "re-representation: relate = {} but true DE-9IM = {} (original representation gave {}); A'={} B'={} xf={:?}",
                                m.to_string9(), want.to_string9(), got.to_string9(), wkt(&va), wkt(&vb), c.xf
                            ),
                        );
                    }
                }
                Err(p) => obs.fail(format!("relate:{tva}/{tvb}|panic|{}", p.site()), format!("{} A'={} B'={}", p, wkt(&va), wkt(&vb))),
            }
        }
    }
}
