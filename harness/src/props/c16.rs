//! C16 — Haversine, geodesic and rhumb measures are mutually consistent.
use crate::engine::{guard, Obs, Property, Tier};
use geo::line_measures::metric_spaces::{GeodesicMeasure, HaversineMeasure};
use geo::{Bearing, Destination, Distance, Geodesic, Haversine, InterpolatePoint, Length, LineString, Point, Rhumb};
#[allow(deprecated)]
use geo::{GeodesicBearing, GeodesicDestination, GeodesicDistance, HaversineBearing, HaversineDestination, HaversineDistance, RhumbBearing, RhumbDestination, RhumbDistance};
use proptest::prelude::*;
use serde::{Deserialize, Serialize};

type P = (f64, f64);

#[derive(Clone, Debug, Serialize, Deserialize)]
pub struct Case {
    pub a: P,
    pub b: P,
    pub ratio: f64,
    /// extra vertices for the length identity
    pub more: Vec<P>,
    pub radius: f64,
    pub bearing: f64,
    pub dist: f64,
}

pub struct C16;

fn lonlat() -> impl Strategy<Value = P> {
    prop_oneof![
        6 => (-180.0f64..=180.0, -90.0f64..=90.0),
        1 => (prop_oneof![Just(-180.0f64), Just(180.0), Just(0.0), Just(90.0), Just(-90.0)], prop_oneof![Just(-90.0f64), Just(90.0), Just(0.0), Just(45.0), -90.0f64..=90.0]),
        2 => (prop_oneof![170.0f64..=180.0, -180.0f64..=-170.0], -80.0f64..=80.0),
        1 => (-180.0f64..=180.0, prop_oneof![89.0f64..=90.0, -90.0f64..=-89.0]),
    ]
}

fn pair() -> impl Strategy<Value = (P, P)> {
    prop_oneof![
        5 => (lonlat(), lonlat()),
        // nearly coincident
        // ... down to a few units in the last place (distinct points whose angular distance rounds to zero)
        1 => (lonlat(), -3i64..4, -3i64..4).prop_map(|(a, kx, ky)| {
            let nudge = |v: f64, n: i64| if v == 0.0 { n as f64 * 1e-300 } else { f64::from_bits((v.to_bits() as i64 + n) as u64) };
            (a, (nudge(a.0, kx).clamp(-180.0, 180.0), nudge(a.1, ky).clamp(-90.0, 90.0)))
        }),
        2 => (lonlat(), -15.0f64..-3.0, 0.0f64..360.0).prop_map(|(a, e, th)| {
            let d = 10f64.powf(e);
            let b = ((a.0 + d * th.to_radians().cos()).clamp(-180.0, 180.0), (a.1 + d * th.to_radians().sin()).clamp(-90.0, 90.0));
            (a, b)
        }),
        // nearly antipodal
        1 => (lonlat(), -3.0f64..3.0, -3.0f64..3.0).prop_map(|(a, dx, dy)| {
            let lon = if a.0 > 0.0 { a.0 - 180.0 } else { a.0 + 180.0 };
            (a, ((lon + dx).clamp(-180.0, 180.0), (-a.1 + dy).clamp(-90.0, 90.0)))
        }),
        // the same place, or two places centimetres apart, written on either side of the antimeridian (lon 180 = lon -180)
        1 => (-85.0f64..85.0, prop_oneof![Just(0.0f64), -10.0f64..-5.0], prop_oneof![Just(0.0f64), -10.0f64..-5.0], prop_oneof![Just(0.0f64), -10.0f64..-6.0], any::<bool>()).prop_map(|(lat, e1, e2, e3, swap)| {
            let p = |e: f64| if e == 0.0 { 0.0 } else { 10f64.powf(e) };
            let (a, b) = ((180.0 - p(e1), lat), (-180.0 + p(e2), lat + p(e3)));
            if swap { (b, a) } else { (a, b) }
        }),
        // same latitude (east-west) and same longitude (north-south)
        1 => (lonlat(), -180.0f64..=180.0).prop_map(|(a, l)| (a, (l, a.1))),
        1 => (lonlat(), -90.0f64..=90.0).prop_map(|(a, l)| (a, (a.0, l))),
    ]
}

/// central angle in degrees (own haversine formula on the unit sphere)
fn central_angle(a: P, b: P) -> f64 {
    let (p1, p2) = (a.1.to_radians(), b.1.to_radians());
    let (dp, dl) = ((b.1 - a.1).to_radians(), (b.0 - a.0).to_radians());
    let h = (dp / 2.0).sin().powi(2) + p1.cos() * p2.cos() * (dl / 2.0).sin().powi(2);
    (2.0 * h.sqrt().min(1.0).asin()).to_degrees()
}

struct Space<'a> {
    name: &'a str,
    dist: Box<dyn Fn(Point<f64>, Point<f64>) -> f64 + 'a>,
    bearing: Box<dyn Fn(Point<f64>, Point<f64>) -> f64 + 'a>,
    dest: Box<dyn Fn(Point<f64>, f64, f64) -> Point<f64> + 'a>,
    ratio: Box<dyn Fn(Point<f64>, Point<f64>, f64) -> Point<f64> + 'a>,
    length: Box<dyn Fn(&LineString<f64>) -> f64 + 'a>,
    at_dist: Box<dyn Fn(Point<f64>, Point<f64>, f64) -> Point<f64> + 'a>,
    along: Box<dyn Fn(Point<f64>, Point<f64>, f64, bool) -> Vec<Point<f64>> + 'a>,
}

impl Property for C16 {
    type Case = Case;
    const ID: &'static str = "C16";
    fn strategy(_tier: Tier) -> BoxedStrategy<Case> {
        (pair(), 0.0f64..=1.0, proptest::collection::vec(lonlat(), 0..4), 1.0f64..1e8, -720.0f64..720.0, -2.0e7f64..2.0e7)
            .prop_map(|((a, b), ratio, more, radius, bearing, dist)| Case { a, b, ratio, more, radius, bearing, dist })
            .boxed()
    }
    fn quota(tier: Tier) -> u64 {
        tier.pick(3_000_000, 60_000_000)
    }
    fn rule() -> String {
        "Point pairs with lon in [-180,180], lat in [-90,90]: uniform, axis / pole / antimeridian special values, antimeridian \
         band, near-pole band, nearly coincident (1e-9..1e-3 deg), nearly antipodal, same-latitude and same-longitude pairs; ratios \
         in [0,1]; bearings in [-720,720], distances in +-2e7 m; sphere radii 1..1e8. Oracle: the identities of the statement, per \
         metric space (Haversine, Geodesic, Rhumb): distance >= 0, d(a,a) = 0, symmetry, bearing in [0,360), \
         destination(a, bearing(a,b), d(a,b)) arrives at b and point_at_ratio_between splits d in r : 1-r within 1 mm + 1e-9 d on the \
         well-conditioned sub-domain (|lat| <= 89, central angle in [1e-7, 179] deg; for Rhumb additionally dlat = 0 or |dpsi| >= \
         1e-6), length = sum of segment distances, destination periodic in the bearing and odd in the distance, Haversine linear in \
         the radius, Geodesic on a sphere = Haversine, deprecated trait forms identical; over the WHOLE domain (poles included) \
         destination and ratio points are finite. Non-trivial = the pair crosses the \
         antimeridian, or |lat| > 60, or lies in different hemispheres."
            .into()
    }
    fn assumptions() -> Vec<String> {
        vec![
            "tolerances (1 mm + 1e-9 d) calibrated on the unchanged tree: >= 10x the largest deviation seen on the well-conditioned sub-domain".into(),
            "the ill-conditioned rhumb band 0 < |dpsi| < 1e-6 (nearly east-west courses) is not asserted either way".into(),
        ]
    }
    fn must_hit() -> Vec<&'static str> {
        vec!["crosses-antimeridian", "high-latitude", "different-hemispheres", "well-conditioned", "nearly-coincident", "nearly-antipodal"]
    }
    fn check(c: &Case, obs: &mut Obs) {
        let ok = |p: &P| p.0.is_finite() && p.1.is_finite() && p.0.abs() <= 180.0 && p.1.abs() <= 90.0;
        if !ok(&c.a) || !ok(&c.b) || !c.more.iter().all(ok) || !(0.0..=1.0).contains(&c.ratio) || !(c.radius >= 1.0 && c.radius <= 1e9) || !c.bearing.is_finite() || !c.dist.is_finite() || c.dist.abs() > 2.1e7 || c.bearing.abs() > 1e4 {
            obs.label("skipped:out-of-domain");
            return;
        }
        let (a, b) = (Point::new(c.a.0, c.a.1), Point::new(c.b.0, c.b.1));
        let ang = central_angle(c.a, c.b);
        if (c.a.0 - c.b.0).abs() > 180.0 {
            obs.label("crosses-antimeridian");
            obs.nontrivial();
        }
        if c.a.1.abs() > 60.0 || c.b.1.abs() > 60.0 {
            obs.label("high-latitude");
            obs.nontrivial();
        }
        if c.a.1 * c.b.1 < 0.0 {
            obs.label("different-hemispheres");
            obs.nontrivial();
        }
        if ang < 1e-3 && ang > 0.0 {
            obs.label("nearly-coincident");
        }
        if ang > 177.0 {
            obs.label("nearly-antipodal");
        }
        let well = c.a.1.abs() <= 89.0 && c.b.1.abs() <= 89.0 && (1e-7..=179.0).contains(&ang);
        if well {
            obs.label("well-conditioned");
        }
        let custom_h = HaversineMeasure::new(c.radius);
        let sphere_g = GeodesicMeasure::new(c.radius, 0.0);
        let bessel = GeodesicMeasure::new(6377397.155, 1.0 / 299.1528128);
        let mars_g = GeodesicMeasure::new(3396190.0, 1.0 / 169.8);
        let mars_h = HaversineMeasure::new(3389500.0);
        let spaces: Vec<Space> = vec![
            Space { name: "Haversine", dist: Box::new(|p, q| Haversine.distance(p, q)), bearing: Box::new(|p, q| Haversine.bearing(p, q)), dest: Box::new(|p, t, d| Haversine.destination(p, t, d)), ratio: Box::new(|p, q, r| Haversine.point_at_ratio_between(p, q, r)), length: Box::new(|l| Haversine.length(l)), at_dist: Box::new(|p, q, d| Haversine.point_at_distance_between(p, q, d)), along: Box::new(|p, q, m, e| Haversine.points_along_line(p, q, m, e).collect()) },
            Space { name: "Geodesic", dist: Box::new(|p, q| Geodesic.distance(p, q)), bearing: Box::new(|p, q| Geodesic.bearing(p, q)), dest: Box::new(|p, t, d| Geodesic.destination(p, t, d)), ratio: Box::new(|p, q, r| Geodesic.point_at_ratio_between(p, q, r)), length: Box::new(|l| Geodesic.length(l)), at_dist: Box::new(|p, q, d| Geodesic.point_at_distance_between(p, q, d)), along: Box::new(|p, q, m, e| Geodesic.points_along_line(p, q, m, e).collect()) },
            // custom figures (every method must use the measure's own parameters, not the WGS84 / mean-radius defaults):
            // Bessel 1841, a Mars-like ellipsoid (flattening 1/169.8), a sphere of Mars' radius
            Space { name: "Geodesic(Bessel1841)", dist: Box::new(|p, q| bessel.distance(p, q)), bearing: Box::new(|p, q| bessel.bearing(p, q)), dest: Box::new(|p, t, d| bessel.destination(p, t, d)), ratio: Box::new(|p, q, r| bessel.point_at_ratio_between(p, q, r)), length: Box::new(|l| bessel.length(l)), at_dist: Box::new(|p, q, d| bessel.point_at_distance_between(p, q, d)), along: Box::new(|p, q, m, e| bessel.points_along_line(p, q, m, e).collect()) },
            Space { name: "Geodesic(Mars)", dist: Box::new(|p, q| mars_g.distance(p, q)), bearing: Box::new(|p, q| mars_g.bearing(p, q)), dest: Box::new(|p, t, d| mars_g.destination(p, t, d)), ratio: Box::new(|p, q, r| mars_g.point_at_ratio_between(p, q, r)), length: Box::new(|l| mars_g.length(l)), at_dist: Box::new(|p, q, d| mars_g.point_at_distance_between(p, q, d)), along: Box::new(|p, q, m, e| mars_g.points_along_line(p, q, m, e).collect()) },
            Space { name: "Haversine(r=3389500)", dist: Box::new(|p, q| mars_h.distance(p, q)), bearing: Box::new(|p, q| mars_h.bearing(p, q)), dest: Box::new(|p, t, d| mars_h.destination(p, t, d)), ratio: Box::new(|p, q, r| mars_h.point_at_ratio_between(p, q, r)), length: Box::new(|l| mars_h.length(l)), at_dist: Box::new(|p, q, d| mars_h.point_at_distance_between(p, q, d)), along: Box::new(|p, q, m, e| mars_h.points_along_line(p, q, m, e).collect()) },
            Space { name: "Rhumb", dist: Box::new(|p, q| Rhumb.distance(p, q)), bearing: Box::new(|p, q| Rhumb.bearing(p, q)), dest: Box::new(|p, t, d| Rhumb.destination(p, t, d)), ratio: Box::new(|p, q, r| Rhumb.point_at_ratio_between(p, q, r)), length: Box::new(|l| Rhumb.length(l)), at_dist: Box::new(|p, q, d| Rhumb.point_at_distance_between(p, q, d)), along: Box::new(|p, q, m, e| Rhumb.points_along_line(p, q, m, e).collect()) },
        ];
        let ctx = || format!("a={:?} b={:?} r={} central angle {ang} deg", c.a, c.b, c.ratio);
        for sp in &spaces {
            let n = sp.name;
            let res = guard(std::panic::AssertUnwindSafe(|| {
                let mut o = Obs::new();
                let d = (sp.dist)(a, b);
                let dr = (sp.dist)(b, a);
                o.expect(d >= 0.0 && d.is_finite(), &format!("{n}|distance-negative-or-nan"), || format!("{d}; {}", ctx()));
                o.expect((sp.dist)(a, a) == 0.0, &format!("{n}|distance-to-self-nonzero"), || format!("{}; {}", (sp.dist)(a, a), ctx()));
                // rhumb: nearly east-west courses are ill-conditioned (q = dphi / dpsi of two tiny numbers) unless exactly east-west
                let dpsi = {
                    let f = |lat: f64| (std::f64::consts::FRAC_PI_4 + lat.to_radians() / 2.0).tan().ln();
                    (f(c.b.1) - f(c.a.1)).abs()
                };
                let rhumb_ok = n != "Rhumb" || c.a.1 == c.b.1 || dpsi >= 1e-6;
                if rhumb_ok {
                    o.expect((d - dr).abs() <= 1e-9 * d + 1e-6, &format!("{n}|distance-asymmetric"), || format!("{d} vs {dr}; {}", ctx()));
                } else {
                    // q = dphi / dpsi of two tiny numbers: the relative error grows like ulp / dpsi
                    let rel = (64.0 * f64::EPSILON / dpsi.max(1e-300)).min(1.0) + 1e-9;
                    o.expect((d - dr).abs() <= rel.max(1e-5) * d + 1e-6, &format!("{n}|distance-asymmetric"), || format!("(ill-conditioned band, dpsi {dpsi}) {d} vs {dr}; {}", ctx()));
                }
                let th = (sp.bearing)(a, b);
                // input class for the known-findings matcher: an operand exactly at a pole
                let at_pole = if c.a.1.abs() == 90.0 || c.b.1.abs() == 90.0 { "|at-pole" } else { "" };
                o.expect((0.0..360.0).contains(&th), &format!("{n}|bearing-out-of-range{at_pole}"), || format!("{th}; {}", ctx()));
                // nothing in the stated domain (the poles included) may produce a coordinate that is not a number: travelling
                // from a, the ratio point of (a, b), and the trip bearing(a,b) x distance(a,b) that should arrive at b
                let fin = |p: Point<f64>| p.x().is_finite() && p.y().is_finite();
                let m_any = (sp.ratio)(a, b, c.ratio);
                o.expect(fin(m_any), &format!("{n}|ratio-point-not-finite{at_pole}"), || format!("{:?}; {}", m_any, ctx()));
                let d_any = (sp.dest)(a, c.bearing, c.dist.abs().min(5.0e6));
                o.expect(fin(d_any), &format!("{n}|destination-not-finite{at_pole}"), || format!("destination(a, {}, {}) = {:?}; {}", c.bearing, c.dist.abs().min(5.0e6), d_any, ctx()));
                if th.is_finite() && d.is_finite() {
                    let d_rt = (sp.dest)(a, th, d);
                    o.expect(fin(d_rt), &format!("{n}|destination-not-finite{at_pole}"), || format!("destination(a, {th}, {d}) = {:?}; {}", d_rt, ctx()));
                }
                let tol = 1e-3 + 1e-9 * d;
                let well_here = well && rhumb_ok;
                if well_here {
                    let dst = (sp.dest)(a, th, d);
                    let err = (sp.dist)(dst, b);
                    o.expect(err <= tol, &format!("{n}|round-trip"), || format!("destination(a, {th}, {d}) = {:?}, {err} m from b; {}", dst, ctx()));
                    let m = (sp.ratio)(a, b, c.ratio);
                    let (d1, d2) = ((sp.dist)(a, m), (sp.dist)(m, b));
                    o.expect((d1 - c.ratio * d).abs() <= tol && (d2 - (1.0 - c.ratio) * d).abs() <= tol, &format!("{n}|ratio-split"), || {
                        format!("m={:?} d(a,m)={d1} want {} d(m,b)={d2} want {}; {}", m, c.ratio * d, (1.0 - c.ratio) * d, ctx())
                    });
                }
                if well_here && d > 1.0 {
                    // point_at_distance_between: the point at that distance from the start (same as the ratio form)
                    let dm = c.ratio * d;
                    let pd = (sp.at_dist)(a, b, dm);
                    let e = (sp.dist)(a, pd);
                    o.expect((e - dm).abs() <= tol, &format!("{n}|point_at_distance_between"), || format!("{:?} is {e} from a, want {dm}; {}", pd, ctx()));
                    // points_along_line: consecutive points are never further apart than max_distance (documented), the ends
                    // are included exactly when asked, and no more points are inserted than needed (one spare allowed)
                    let maxd = (d * (0.05 + 0.9 * c.ratio)).max(d / 40.0);
                    let with_ends = (sp.along)(a, b, maxd, true);
                    let without = (sp.along)(a, b, maxd, false);
                    let ok_ends = with_ends.len() >= 2 && with_ends.first() == Some(&a) && with_ends.last() == Some(&b);
                    o.expect(ok_ends, &format!("{n}|points_along_line|ends-missing"), || format!("{:?}; max {maxd}; {}", with_ends, ctx()));
                    if ok_ends {
                        o.expect(with_ends[1..with_ends.len() - 1] == without[..], &format!("{n}|points_along_line|include_ends-changes-the-interior"), || format!("{:?} vs {:?}; {}", with_ends, without, ctx()));
                        let gap = with_ends.windows(2).map(|w| (sp.dist)(w[0], w[1])).fold(0.0, f64::max);
                        o.expect(gap <= maxd * (1.0 + 1e-9) + tol, &format!("{n}|points_along_line|gap-exceeds-max"), || format!("largest gap {gap} > {maxd}; {} points; {}", with_ends.len(), ctx()));
                        let need = (d / maxd).ceil() as usize;
                        o.expect(without.len() + 1 <= need + 1, &format!("{n}|points_along_line|too-many-points"), || format!("{} interior points for d={d} max={maxd}; {}", without.len(), ctx()));
                    }
                }
                // wherever the pair lies (coincident, centimetres apart, across the antimeridian): the ratio point is not farther
                // from either end than the ends are from each other
                if c.a.1.abs() <= 89.0 && c.b.1.abs() <= 89.0 && ang <= 179.0 && rhumb_ok {
                    let m = (sp.ratio)(a, b, c.ratio);
                    let (d1, d2) = ((sp.dist)(a, m), (sp.dist)(m, b));
                    o.expect(d1 <= d + tol && d2 <= d + tol, &format!("{n}|ratio-point-not-between"), || format!("m={:?} d(a,m)={d1} d(m,b)={d2} d(a,b)={d}; {}", m, ctx()));
                }
                // length = sum of segment distances
                let mut pts = vec![a, b];
                pts.extend(c.more.iter().map(|p| Point::new(p.0, p.1)));
                // one case in eight: a long line string (the same vertices over and over, 130 .. 330 coordinates)
                if (c.bearing.to_bits() >> 9) % 8 == 0 {
                    let base = pts.clone();
                    let want_n = 130 + ((c.dist.to_bits() >> 11) % 200) as usize;
                    while pts.len() < want_n {
                        pts.extend(base.iter().cloned());
                    }
                }
                let ls = LineString::from(pts.clone());
                let sum: f64 = pts.windows(2).map(|w| (sp.dist)(w[0], w[1])).sum();
                let len = (sp.length)(&ls);
                o.expect((len - sum).abs() <= 1e-12 * sum + 1e-9, &format!("{n}|length-not-sum-of-distances"), || format!("{len} vs {sum}; {}", ctx()));
                // destination: periodic in the bearing, odd in the distance (away from the poles)
                if c.a.1.abs() <= 85.0 {
                    let dd = c.dist.abs().min(5.0e6);
                    let p0 = (sp.dest)(a, c.bearing, dd);
                    let p1 = (sp.dest)(a, c.bearing + 360.0, dd);
                    let p2 = (sp.dest)(a, c.bearing + 180.0, -dd);
                    // rhumb: courses within 1e-4 of due east / west are in the ill-conditioned band
                    let ew_band = n == "Rhumb" && c.bearing.to_radians().cos().abs() < 1e-4;
                    if p0.y().abs() <= 89.0 && !ew_band {
                        let (e1, e2) = ((sp.dist)(p0, p1), (sp.dist)(p0, p2));
                        o.expect(e1 <= 1e-3 + 1e-9 * dd, &format!("{n}|destination-not-periodic-in-bearing"), || format!("bearing {} dist {dd}: {:?} vs {:?} ({e1} m); {}", c.bearing, p0, p1, ctx()));
                        o.expect(e2 <= 1e-3 + 1e-9 * dd, &format!("{n}|destination-negative-distance"), || format!("bearing {} dist {dd}: {:?} vs {:?} ({e2} m); {}", c.bearing, p0, p2, ctx()));
                        o.expect(p0.x().abs() <= 180.0 + 1e-9 && p0.y().abs() <= 90.0 + 1e-9, &format!("{n}|destination-out-of-range"), || format!("{:?}; {}", p0, ctx()));
                    }
                }
                o
            }));
            match res {
                Ok(o) => {
                    obs.comparisons += o.comparisons;
                    obs.failures.extend(o.failures);
                }
                Err(p) => obs.fail(format!("{n}|panic|{}", p.site()), format!("{} {}", p, ctx())),
            }
        }
        // cross-space identities
        let r = guard(std::panic::AssertUnwindSafe(|| {
            let mut o = Obs::new();
            let dh = Haversine.distance(a, b);
            let dc = custom_h.distance(a, b);
            let want = dh * c.radius / Haversine.radius();
            o.expect((dc - want).abs() <= 1e-12 * want + 1e-9 * c.radius / 6.4e6, "Haversine|not-linear-in-radius", || format!("{dc} vs {want}; {}", ctx()));
            let dg = sphere_g.distance(a, b);
            if ang <= 179.0 {
                o.expect((dg - dc).abs() <= 1e-9 * dc + 1e-6 * c.radius / 6.4e6, "Geodesic-on-sphere|differs-from-Haversine", || format!("geodesic {dg} vs haversine {dc} radius {}; {}", c.radius, ctx()));
            }
            #[allow(deprecated)]
            {
                o.expect(a.haversine_distance(&b) == dh, "deprecated|haversine_distance-differs", || ctx());
                o.expect(a.geodesic_distance(&b) == Geodesic.distance(a, b), "deprecated|geodesic_distance-differs", || ctx());
                o.expect(a.rhumb_distance(&b) == Rhumb.distance(a, b), "deprecated|rhumb_distance-differs", || ctx());
                let same = |x: f64, y: f64| x == y || (x.is_nan() && y.is_nan()) || (x - y).abs() <= 1e-9 || ((x - y).abs() - 360.0).abs() <= 1e-9;
                o.expect(same((a.haversine_bearing(b) + 360.0) % 360.0, Haversine.bearing(a, b)), "deprecated|haversine_bearing-differs", || format!("{} vs {}; {}", a.haversine_bearing(b), Haversine.bearing(a, b), ctx()));
                o.expect(same((a.geodesic_bearing(b) + 360.0) % 360.0, Geodesic.bearing(a, b)), "deprecated|geodesic_bearing-differs", || format!("{} vs {}; {}", a.geodesic_bearing(b), Geodesic.bearing(a, b), ctx()));
                if let Some(rb) = Some(a.rhumb_bearing(b)) {
                    o.expect(same(rb, Rhumb.bearing(a, b)), "deprecated|rhumb_bearing-differs", || format!("{rb} vs {}; {}", Rhumb.bearing(a, b), ctx()));
                }
                let dd = c.dist.abs().min(5.0e6);
                let close = |p: Point<f64>, q: Point<f64>| (p.x().to_bits() == q.x().to_bits() && p.y().to_bits() == q.y().to_bits()) || (p.x() - q.x()).abs() <= 1e-9 && (p.y() - q.y()).abs() <= 1e-9 || Haversine.distance(p, q) <= 1e-3;
                o.expect(close(a.haversine_destination(c.bearing, dd), Haversine.destination(a, c.bearing, dd)), "deprecated|haversine_destination-differs", || ctx());
                o.expect(close(a.geodesic_destination(c.bearing, dd), Geodesic.destination(a, c.bearing, dd)), "deprecated|geodesic_destination-differs", || ctx());
                o.expect(close(a.rhumb_destination(c.bearing, dd), Rhumb.destination(a, c.bearing, dd)), "deprecated|rhumb_destination-differs", || ctx());
            }
            o
        }));
        match r {
            Ok(o) => {
                obs.comparisons += o.comparisons;
                obs.failures.extend(o.failures);
            }
            Err(p) => obs.fail(format!("cross-space|panic|{}", p.site()), format!("{} {}", p, ctx())),
        }
    }
}
