//! C14 — validation accepts exactly the well-formed geometries.
use crate::conv::{to_geo, wkt, Xf};
use crate::engine::{guard, Obs, Property, Tier};
use crate::exact::C;
use crate::gen::{areal_strategy, geom_strategy, xf_strategy};
use crate::refgeom::validity::{in_relate_domain, mpoly_report, poly_report, PolyReport, RingDefect};
use crate::refgeom::{Poly, G};
use geo::algorithm::validation::{InvalidMultiPolygon, InvalidPolygon, RingRole, Validation};
use geo::{Geometry, MultiPolygon, Polygon};
use proptest::prelude::*;
use serde::{Deserialize, Serialize};
use serde_json::{json, Value};

#[derive(Clone, Debug, Serialize, Deserialize)]
pub struct Case {
    /// possibly invalid
    pub g: G,
    /// inject a non-finite coordinate: (member, ring, coordinate index, 0 NaN / 1 +inf / 2 -inf, 0 x / 1 y)
    pub nonfinite: Option<(u8, u8, u8, u8, u8)>,
    pub xf: Xf,
    /// the operator that produced `g` from a valid geometry (label only)
    pub op: u8,
    /// when present the case is about one of the other geometry types, given directly in f64 coordinates
    /// (non-finite values, repeated and collinear coordinates included); `g` is then ignored
    #[serde(default)]
    pub small: Option<Small>,
}

type PF = (f64, f64);
/// The non-areal types and Rect / Triangle with adversarial coordinates; what is valid is read off the
/// documentation of each `Invalid*` enum.
#[derive(Clone, Debug, Serialize, Deserialize)]
pub enum Small {
    Pt(PF),
    Ln(PF, PF),
    Tri(PF, PF, PF),
    Rc(PF, PF),
    Ls(Vec<PF>),
    Mpt(Vec<PF>),
    Mls(Vec<Vec<PF>>),
    Coll(Vec<Small>),
}

fn small_leaf() -> impl Strategy<Value = Small> {
    // lattice value, or (1 in 12) a non-finite one
    let v = || prop_oneof![11 => (-3i64..4).prop_map(|x| x as f64), 1 => prop_oneof![Just(f64::NAN), Just(f64::INFINITY), Just(f64::NEG_INFINITY)]];
    let p = move || (v(), v());
    // for the types whose validity depends on finiteness and distinctness only: also huge FINITE ordinates (their sum is not
    // finite, each of them is)
    let vh = || prop_oneof![10 => (-3i64..4).prop_map(|x| x as f64), 1 => prop_oneof![Just(f64::NAN), Just(f64::INFINITY), Just(f64::NEG_INFINITY)], 1 => prop_oneof![Just(f64::MAX), Just(-f64::MAX), Just(1.0e308), Just(-9.0e307)]];
    let ph = move || (vh(), vh());
    let p_ = p;
    let p = ph;
    prop_oneof![
        1 => p().prop_map(Small::Pt),
        2 => (p(), p()).prop_map(|(a, b)| Small::Ln(a, b)),
        2 => (p_(), p_(), p_()).prop_map(|(a, b, c)| Small::Tri(a, b, c)),
        // ill-conditioned triangles: exactly collinear / off by an ulp / thin (shared with C03)
        4 => crate::props::c03::triple_strategy().prop_map(|t| Small::Tri(t[0], t[1], t[2])),
        1 => (p_(), p_()).prop_map(|(a, b)| Small::Rc(a, b)),
        3 => proptest::collection::vec(p(), 0..6).prop_map(Small::Ls),
        1 => proptest::collection::vec(p(), 0..5).prop_map(Small::Mpt),
        2 => proptest::collection::vec(proptest::collection::vec(p(), 0..5), 0..4).prop_map(Small::Mls),
    ]
}
fn small_strategy() -> impl Strategy<Value = Small> {
    small_leaf().prop_recursive(2, 12, 4, |inner| proptest::collection::vec(inner, 0..4).prop_map(Small::Coll))
}

fn small_to_geo(s: &Small) -> Geometry<f64> {
    let c = |p: &PF| geo::Coord { x: p.0, y: p.1 };
    match s {
        Small::Pt(p) => Geometry::Point(geo::Point(c(p))),
        Small::Ln(a, b) => Geometry::Line(geo::Line::new(c(a), c(b))),
        Small::Tri(a, b, d) => Geometry::Triangle(geo::Triangle(c(a), c(b), c(d))),
        Small::Rc(a, b) => Geometry::Rect(geo::Rect::new(c(a), c(b))),
        Small::Ls(v) => Geometry::LineString(geo::LineString::new(v.iter().map(c).collect())),
        Small::Mpt(v) => Geometry::MultiPoint(geo::MultiPoint::new(v.iter().map(|p| geo::Point(c(p))).collect())),
        Small::Mls(v) => Geometry::MultiLineString(geo::MultiLineString::new(v.iter().map(|l| geo::LineString::new(l.iter().map(c).collect())).collect())),
        Small::Coll(v) => Geometry::GeometryCollection(geo::GeometryCollection::new_from(v.iter().map(small_to_geo).collect())),
    }
}

/// Expected validation errors of a `Small` value, as the multiset of their Debug renderings (None = the verdict
/// is not decided by the documentation for this input, e.g. collinearity of non-finite corners).
fn small_expected(s: &Small, labels: &mut Vec<&'static str>) -> Option<Vec<String>> {
    let fin = |p: &PF| p.0.is_finite() && p.1.is_finite();
    let ls_errors = |v: &Vec<PF>| -> Vec<String> {
        let mut out = vec![];
        if v.is_empty() {
            return out;
        }
        let mut d: Vec<PF> = vec![];
        for p in v {
            // consecutive repeated points count once (NaN never equals itself)
            if d.last().map(|q| q.0 == p.0 && q.1 == p.1) != Some(true) {
                d.push(*p);
            }
        }
        if d.len() < 2 {
            out.push("TooFewPoints".to_string());
        }
        for (i, p) in v.iter().enumerate() {
            if !fin(p) {
                out.push(format!("NonFiniteCoord(CoordIndex({i}))"));
            }
        }
        out
    };
    Some(match s {
        Small::Pt(p) => if fin(p) { vec![] } else { vec!["NonFiniteCoord".into()] },
        Small::Ln(a, b) => {
            let mut out = vec![];
            if !fin(a) { out.push("NonFiniteCoord(CoordIndex(0))".into()); }
            if !fin(b) { out.push("NonFiniteCoord(CoordIndex(1))".into()); }
            if a.0 == b.0 && a.1 == b.1 { out.push("IdenticalCoords".into()); labels.push("small:zero-length-line"); }
            out
        }
        Small::Tri(a, b, d) => {
            let mut out = vec![];
            for (i, p) in [a, b, d].iter().enumerate() {
                if !fin(p) { out.push(format!("NonFiniteCoord(CoordIndex({i}))")); }
            }
            let eq = |p: &PF, q: &PF| p.0 == q.0 && p.1 == q.1;
            let mut ident = false;
            for (i, j, p, q) in [(0, 1, a, b), (0, 2, a, d), (1, 2, b, d)] {
                if eq(p, q) { out.push(format!("IdenticalCoords(CoordIndex({i}), CoordIndex({j}))")); ident = true; }
            }
            if !ident {
                if !(fin(a) && fin(b) && fin(d)) {
                    return None;
                }
                // exactness domain of the adaptive predicate (see C03)
                let in_range = |v: f64| v == 0.0 || (v.abs() >= 2f64.powi(-400) && v.abs() <= 2f64.powi(400));
                if ![a, b, d].iter().all(|p| in_range(p.0) && in_range(p.1)) {
                    return None;
                }
                let o = crate::exact::big::orient_f64(*a, *b, *d);
                let naive = (b.0 - a.0) * (d.1 - a.1) - (b.1 - a.1) * (d.0 - a.0);
                if o == 0 { out.push("CollinearCoords".into()); labels.push("small:triangle-exactly-collinear"); }
                if (o == 0) != (naive == 0.0) { labels.push("small:triangle-naive-area-misjudges"); }
            }
            out
        }
        Small::Rc(a, b) => {
            // Rect::new re-normalises; with a NaN the corners are unspecified, so only the verdict is decided
            if fin(a) && fin(b) { vec![] } else { return None }
        }
        Small::Ls(v) => ls_errors(v),
        Small::Mpt(v) => v.iter().enumerate().filter(|(_, p)| !fin(p)).map(|(i, _)| format!("InvalidPoint(GeometryIndex({i}), NonFiniteCoord)")).collect(),
        Small::Mls(v) => v.iter().enumerate().flat_map(|(i, l)| ls_errors(l).into_iter().map(move |e| format!("InvalidLineString(GeometryIndex({i}), {e})"))).collect(),
        Small::Coll(v) => {
            // every member's errors, wrapped with the member's position among ALL members (empty ones included)
            let mut out = vec![];
            for (i, m) in v.iter().enumerate() {
                let wrapper = match m {
                    Small::Pt(_) => "InvalidPoint",
                    Small::Ln(..) => "InvalidLine",
                    Small::Tri(..) => "InvalidTriangle",
                    Small::Rc(..) => "InvalidRect",
                    Small::Ls(_) => "InvalidLineString",
                    Small::Mpt(_) => "InvalidMultiPoint",
                    Small::Mls(_) => "InvalidMultiLineString",
                    Small::Coll(_) => "InvalidGeometryCollection",
                };
                for e in small_expected(m, labels)? {
                    out.push(format!("InvalidGeometry(GeometryIndex({i}), {wrapper}({e}))"));
                    if v[..i].iter().any(|q| matches!(q, Small::Ls(l) if l.is_empty()) || matches!(q, Small::Mpt(l) if l.is_empty()) || matches!(q, Small::Mls(l) if l.is_empty()) || matches!(q, Small::Coll(l) if l.is_empty())) {
                        labels.push("small:invalid-member-after-an-empty-one");
                    }
                }
            }
            out
        }
    })
}

/// is the value valid (decided even where the exact error list is not): None = undecided
fn small_valid(s: &Small) -> Option<bool> {
    let mut l = vec![];
    match s {
        Small::Rc(a, b) => Some(a.0.is_finite() && a.1.is_finite() && b.0.is_finite() && b.1.is_finite()),
        Small::Coll(v) => {
            let mut all = Some(true);
            for m in v {
                match small_valid(m) {
                    Some(false) => return Some(false),
                    None => all = None,
                    _ => {}
                }
            }
            all
        }
        _ => small_expected(s, &mut l).map(|e| e.is_empty()),
    }
}

pub struct C14;

const NOPS: u8 = 18;

fn ring_bbox(r: &[C]) -> (i64, i64, i64, i64) {
    if r.is_empty() {
        return (0, 0, 0, 0);
    }
    (r.iter().map(|c| c.0).min().unwrap(), r.iter().map(|c| c.1).min().unwrap(), r.iter().map(|c| c.0).max().unwrap(), r.iter().map(|c| c.1).max().unwrap())
}

/// apply a single-defect operator to a valid polygon / multipolygon
fn mutate(g: &G, op: u8, s: u64) -> G {
    let pick = |n: usize, k: u32| -> usize { ((s >> (k * 8)) as usize) % n.max(1) };
    let mut polys: Vec<Poly> = match g {
        G::Polygon(p) => vec![p.clone()],
        G::MultiPolygon(v) => v.clone(),
        _ => return g.clone(),
    };
    if polys.is_empty() || polys[0].ext.len() < 4 {
        return g.clone();
    }
    let is_multi = matches!(g, G::MultiPolygon(_));
    let pi = pick(polys.len(), 0);
    let small: [(i64, i64); 8] = [(1, 0), (0, 1), (-1, 0), (0, -1), (1, 1), (-1, 1), (2, 0), (0, 2)];
    {
        let p = &mut polys[pi];
        let n = p.ext.len() - 1;
        let close = |r: &mut Vec<C>| {
            let f = r[0];
            let l = r.len() - 1;
            r[l] = f;
        };
        match op {
            0 => {} // unchanged: valid
            1 => {
                // swap two vertices (bow-tie)
                let (i, j) = (pick(n, 1), pick(n, 2));
                p.ext.swap(i, j);
                close(&mut p.ext);
            }
            2 => {
                // spike: v, v + d, v
                let i = pick(n, 1);
                let v = p.ext[i];
                let d = small[pick(8, 2)];
                p.ext.insert(i + 1, (v.0 + d.0 * 3, v.1 + d.1 * 3));
                p.ext.insert(i + 2, v);
            }
            3 => {
                // collapse the ring to collinear points (zero area)
                let a = p.ext[0];
                let d = small[pick(8, 1)];
                let k = 2 + pick(3, 2) as i64;
                p.ext = (0..=k).map(|t| (a.0 + d.0 * t, a.1 + d.1 * t)).chain(std::iter::once(a)).collect();
                p.holes.clear();
            }
            4 => {
                // revisit a vertex (ring touches itself)
                if n >= 4 {
                    let (i, j) = (pick(n - 2, 1), 2 + pick(n - 2, 2));
                    let v = p.ext[i];
                    let at = (i + j).min(n);
                    p.ext.insert(at, v);
                }
            }
            6 if pick(4, 3) == 0 => {
                // a hole whose VERTICES are all strictly inside a concave shell while one of its edges cuts the reflex corner
                // (leaves the shell and comes back): an L-shaped shell, the hole's long edge from (1 3) to (5 1) crosses the
                // shell edges at (2 2.5) and (3 2); in one of four orientations of the template, at a varying place
                let (ox, oy) = (pick(5, 4) as i64 * 2, pick(5, 5) as i64 * 2);
                let t = pick(4, 6);
                let f = |c: (i64, i64)| { let c = match t { 0 => c, 1 => (6 - c.0, c.1), 2 => (c.0, 4 - c.1), _ => (6 - c.0, 4 - c.1) }; (c.0 + ox, c.1 + oy) };
                p.ext = [(0, 0), (6, 0), (6, 2), (2, 2), (2, 4), (0, 4), (0, 0)].iter().map(|c| f(*c)).collect();
                p.holes = vec![[(1, 3), (5, 1), (1, 1), (1, 3)].iter().map(|c| f(*c)).collect()];
            }
            5 | 6 => {
                // move a hole (or a new small hole) outside / across the shell
                let (x0, y0, x1, y1) = ring_bbox(&p.ext);
                let hole = if p.holes.is_empty() { vec![(x0, y0), (x0 + 1, y0), (x0, y0 + 1), (x0, y0)] } else { p.holes[pick(p.holes.len(), 1)].clone() };
                let (dx, dy) = if op == 5 { ((x1 - x0) + 2, 0) } else { ((x1 - x0) / 2, (y1 - y0) / 2) };
                let moved: Vec<C> = hole.iter().map(|c| (c.0 + dx, c.1 + dy)).collect();
                if p.holes.is_empty() { p.holes.push(moved) } else { let k = pick(p.holes.len(), 1); p.holes[k] = moved; }
            }
            7 => {
                // hole sharing an edge with the shell: two consecutive shell vertices + a third point
                let i = pick(n, 1);
                let (a, b) = (p.ext[i], p.ext[i + 1]);
                let (x0, y0, x1, y1) = ring_bbox(&p.ext);
                let c3 = ((x0 + x1) / 2, (y0 + y1) / 2);
                p.holes.push(vec![a, b, c3, a]);
            }
            8 => {
                // a second hole sharing an edge with / nested in / equal to an existing hole
                if let Some(h) = p.holes.first().cloned() {
                    let m = h.len() - 1;
                    match pick(3, 1) {
                        0 => p.holes.push(h.clone()),
                        1 => {
                            let (a, b) = (h[0], h[1 % m]);
                            let d = small[pick(8, 2)];
                            p.holes.push(vec![a, b, (a.0 + d.0, a.1 + d.1), a]);
                        }
                        _ => {
                            // shrink towards its first vertex by half: nested when coordinates stay integral
                            let o = h[0];
                            let sh: Vec<C> = h.iter().map(|c| (o.0 + (c.0 - o.0) / 2, o.1 + (c.1 - o.1) / 2)).collect();
                            p.holes.push(sh);
                        }
                    }
                } else {
                    let (x0, y0, x1, y1) = ring_bbox(&p.ext);
                    let c3 = ((x0 + x1) / 2, (y0 + y1) / 2);
                    let hh = vec![c3, (c3.0 + 1, c3.1), (c3.0, c3.1 + 1), c3];
                    p.holes.push(hh.clone());
                    p.holes.push(hh.iter().map(|c| (c.0 + pick(2, 1) as i64, c.1)).collect());
                }
            }
            9 => {
                // too few coordinates
                let (a, b) = (p.ext[0], p.ext[1]);
                // (also with the closing coordinate or an inner one stored twice: still fewer than three distinct vertices)
                match pick(10, 1) {
                    // the exterior collapsed to a point or gone altogether while the holes stay
                    7 => p.ext = vec![a, a],
                    8 => p.ext = vec![a],
                    9 if !p.holes.is_empty() => p.ext = vec![],
                    0 => p.ext = vec![a, b, a],
                    1 => p.ext = vec![a, a, b, a],
                    2 => p.ext = vec![a, b, a, a],
                    3 => p.ext = vec![a, b, b, a, a],
                    4 => p.ext = vec![a, b, a, a, a],
                    _ => {
                        if !p.holes.is_empty() {
                            let h = p.holes[0].clone();
                            p.holes[0] = match pick(3, 2) { 0 => vec![h[0], h[1], h[0]], 1 => vec![h[0], h[1], h[0], h[0]], _ => vec![h[0]] };
                        } else {
                            p.ext = vec![a];
                        }
                    }
                }
            }
            10 => {
                // repeated vertices (still valid)
                let i = pick(n, 1);
                let v = p.ext[i];
                p.ext.insert(i, v);
            }
            11 => {
                // hole equal to the shell
                p.holes.push(p.ext.clone());
            }
            _ => {}
        }
    }
    // two defects at once (only the valid / invalid bit and the absence of a panic are compared then): a member whose exterior
    // has collapsed to a point keeps a hole that is moved across a vertex of another member
    if is_multi && op == 9 && polys.len() >= 2 && polys[pi].ext.len() <= 2 && !polys[pi].ext.is_empty() && pick(2, 3) == 0 {
        // (everything doubled first, the hole then moved by an odd offset: its edges cross the other member's edges properly)
        for q in polys.iter_mut() {
            for r in std::iter::once(&mut q.ext).chain(q.holes.iter_mut()) {
                for c in r.iter_mut() {
                    *c = (2 * c.0, 2 * c.1);
                }
            }
        }
        let oi = (pi + 1) % polys.len();
        let other = polys[oi].ext[pick(polys[oi].ext.len(), 6)];
        if polys[pi].holes.is_empty() {
            // (no hole of its own: a small square or triangle)
            polys[pi].holes.push(if pick(2, 2) == 0 { vec![(0, 0), (2, 0), (2, 2), (0, 2), (0, 0)] } else { vec![(0, 0), (4, 0), (2, 6), (0, 0)] });
        }
        let h0 = polys[pi].holes[0][0];
        let d = (other.0 - h0.0 - 1 + 2 * pick(2, 4) as i64, other.1 - h0.1 - 1 + 2 * pick(2, 5) as i64);
        for c in polys[pi].holes[0].iter_mut() {
            *c = (c.0 + d.0, c.1 + d.1);
        }
        // (the collapsed exterior goes inside the other member's envelope: disjoint envelopes are answered by a shortcut)
        let (x0, y0, x1, y1) = ring_bbox(&polys[oi].ext);
        let v = ((x0 + x1) / 2 + pick(3, 7) as i64 - 1, (y0 + y1) / 2);
        for c in polys[pi].ext.iter_mut() {
            *c = v;
        }
    }
    if is_multi || op >= 12 {
        let base = polys[pi].clone();
        let (x0, y0, x1, y1) = ring_bbox(&base.ext);
        match op {
            12 => polys.push(base.clone()),
            13 => {
                // overlapping: copy shifted by less than the extent
                let d = (((x1 - x0) / 2).max(1), 0);
                polys.push(Poly { ext: base.ext.iter().map(|c| (c.0 + d.0, c.1 + d.1)).collect(), holes: vec![] });
            }
            14 => {
                // edge-sharing: a triangle on a shell edge, pointing outwards or inwards
                let n = base.ext.len() - 1;
                let i = pick(n, 1);
                let (a, b) = (base.ext[i], base.ext[i + 1]);
                let d = small[pick(8, 2)];
                polys.push(Poly::new(vec![a, b, (a.0 + d.0 * 2, a.1 + d.1 * 2), a], vec![]));
            }
            15 => {
                // a member inside a hole of another (valid) or inside its interior (invalid)
                if let Some(h) = base.holes.first() {
                    let o = h[0];
                    let inner: Vec<C> = h.iter().map(|c| (o.0 + (c.0 - o.0) / 2, o.1 + (c.1 - o.1) / 2)).collect();
                    polys.push(Poly::new(inner, vec![]));
                } else {
                    let c3 = ((x0 + x1) / 2, (y0 + y1) / 2);
                    polys.push(Poly::new(vec![c3, (c3.0 + 1, c3.1), (c3.0, c3.1 + 1), c3], vec![]));
                }
            }
            16 => {
                // far away member: valid
                polys.push(Poly { ext: base.ext.iter().map(|c| (c.0 + (x1 - x0) + 3, c.1)).collect(), holes: vec![] });
            }
            17 => {
                // touching at a vertex only
                let v = base.ext[0];
                let d = small[pick(8, 1)];
                polys.push(Poly::new(vec![v, (v.0 + d.0 * 2, v.1 + d.1 * 2), (v.0 + d.0 * 2 - d.1, v.1 + d.1 * 2 + d.0), v], vec![]));
            }
            _ => {}
        }
        // (a third of the time one of the members also carries an EMPTY hole ring: it has no coordinates and changes nothing)
        if (12..=17).contains(&op) && pick(3, 7) == 0 {
            let k = pick(polys.len(), 5);
            if !polys[k].ext.is_empty() {
                polys[k].holes.push(vec![]);
            }
        }
        // (the added member comes last; half of the time it is moved to the front: the defects are symmetric, the order in
        // which members are related is not)
        if (12..=17).contains(&op) && polys.len() >= 2 && pick(2, 6) == 0 {
            let last = polys.pop().unwrap();
            polys.insert(0, last);
        }
        return G::MultiPolygon(polys);
    }
    G::Polygon(polys.into_iter().next().unwrap())
}

pub fn mutate_pub(g: &G, op: u8, s: u64) -> G {
    mutate(g, op, s)
}

fn role_idx(r: &RingRole) -> usize {
    match r {
        RingRole::Exterior => 0,
        RingRole::Interior(i) => i + 1,
    }
}

/// does the oracle's report confirm the defect that geo names?
fn confirms(rep: &PolyReport, e: &InvalidPolygon, nonfinite_ring: Option<usize>) -> bool {
    // a ring that is itself malformed (ring defect or non-finite coordinate) makes every relation
    // it takes part in undefined: errors about such relations are consequences, not spurious kinds
    let malformed = |i: usize| rep.ring_defects.iter().any(|(k, _)| *k == i) || nonfinite_ring == Some(i);
    match e {
        InvalidPolygon::InteriorRingNotContainedInExteriorRing(r) if malformed(role_idx(r)) || malformed(0) => return true,
        InvalidPolygon::IntersectingRingsOnALine(a, b) | InvalidPolygon::IntersectingRingsOnAnArea(a, b) if malformed(role_idx(a)) || malformed(role_idx(b)) => return true,
        _ => {}
    }
    match e {
        InvalidPolygon::TooFewPointsInRing(r) if nonfinite_ring == Some(role_idx(r)) => true,
        InvalidPolygon::TooFewPointsInRing(r) => rep.ring_defects.iter().any(|(i, d)| *i == role_idx(r) && *d == RingDefect::TooFewPoints),
        InvalidPolygon::SelfIntersection(r) => nonfinite_ring == Some(role_idx(r)) || rep.ring_defects.iter().any(|(i, d)| *i == role_idx(r) && matches!(d, RingDefect::SelfIntersection | RingDefect::ZeroArea | RingDefect::TooFewPoints)),

        InvalidPolygon::NonFiniteCoord(r, _) => nonfinite_ring == Some(role_idx(r)),
        InvalidPolygon::InteriorRingNotContainedInExteriorRing(r) => {
            let i = role_idx(r);
            i >= 1 && (rep.hole_not_inside.contains(&(i - 1)) || rep.rings_share_line.contains(&(0, i)) || rep.rings_cross.contains(&(0, i)))
        }
        InvalidPolygon::IntersectingRingsOnALine(a, b) => {
            let (x, y) = (role_idx(a).min(role_idx(b)), role_idx(a).max(role_idx(b)));
            rep.rings_share_line.contains(&(x, y))
        }
        InvalidPolygon::IntersectingRingsOnAnArea(a, b) => {
            let (x, y) = (role_idx(a).min(role_idx(b)), role_idx(a).max(role_idx(b)));
            x >= 1 && rep.holes_overlap.contains(&(x - 1, y - 1))
        }
    }
}

fn n_defects(rep: &PolyReport) -> usize {
    // a crossing hole is one defect (it is also "not inside")
    let mut rings: std::collections::BTreeSet<usize> = rep.ring_defects.iter().map(|d| d.0).collect();
    let base = rings.len() + rep.hole_not_inside.len() + rep.rings_share_line.len() + rep.holes_overlap.len();
    rings.clear();
    base
}

impl Property for C14 {
    type Case = Case;
    const ID: &'static str = "C14";
    fn strategy(_tier: Tier) -> BoxedStrategy<Case> {
        prop_oneof![
            8 => (areal_strategy(), 0u8..NOPS, any::<u64>(), proptest::option::weighted(0.08, (any::<u8>(), any::<u8>(), any::<u8>(), 0u8..3, 0u8..2)), xf_strategy())
                .prop_map(|(g, op, s, nonfinite, xf)| Case { g: mutate(&g, op, s), nonfinite, xf, op, small: None }),
            1 => (geom_strategy(), proptest::option::weighted(0.1, (any::<u8>(), any::<u8>(), any::<u8>(), 0u8..3, 0u8..2)), xf_strategy())
                .prop_map(|(g, nonfinite, xf)| Case { g, nonfinite, xf, op: 255, small: None }),
            2 => small_strategy().prop_map(|sm| Case { g: G::MultiPoint(vec![]), nonfinite: None, xf: Xf::ID, op: 254, small: Some(sm) }),
        ]
        .boxed()
    }
    fn quota(tier: Tier) -> u64 {
        tier.pick(1_500_000, 30_000_000)
    }
    fn rule() -> String {
        "Valid polygons / multipolygons of every ring family, and single-operator mutants of them: swap two vertices (bow-tie), \
         insert a spike, collapse a ring to collinear points, revisit a vertex, move a hole outside / across the shell, hole sharing \
         an edge with the shell, second hole equal to / sharing an edge with / nested in another, hole equal to the shell, too few \
         coordinates (also a one-coordinate hole, an exterior collapsed to a point or emptied while its holes stay, and - two defects \
         at once - such a member whose hole is moved across another member), a hole with all vertices inside a concave shell whose \
         edge cuts the reflex corner, repeated vertices (valid), duplicated / overlapping / edge-sharing / nested / far / vertex-touching \
         multipolygon members (the added member last or first), NaN / +-inf injection; plus valid geometries of the other types; under exact similarities. Oracle: a \
         literal transcription of the statement on the lattice (exact ring simplicity, exact DE-9IM between rings taken as \
         polygons) which also says which ring / member has which defect. Checked: is_valid <=> oracle; validation_errors empty <=> \
         is_valid; check_validation = first of validation_errors; when the oracle finds exactly one defect every reported error must \
         name a ring / member for which the oracle confirms that kind. Non-trivial = input invalid, or valid with holes / touching \
         rings / several members."
            .into()
    }
    fn assumptions() -> Vec<String> {
        vec![
            "connectedness of the interior is not part of the statement and is not demanded".into(),
            "with several defects only the valid / invalid bit is compared (geo relates rings that are themselves malformed there)".into(),
        ]
    }
    fn must_hit() -> Vec<&'static str> {
        (0..NOPS).map(|i| OPL[i as usize]).chain(["oracle:valid", "oracle:invalid", "nonfinite", "single-defect"]).collect()
    }
    fn show(c: &Case) -> Value {
        match &c.small {
            Some(sm) => json!({"small": format!("{:?}", sm)}),
            None => json!({"g": wkt(&c.g), "nonfinite": c.nonfinite, "xf": c.xf, "op": c.op}),
        }
    }
    fn check(c: &Case, obs: &mut Obs) {
        if let Some(sm) = &c.small {
            check_small(sm, obs);
            return;
        }
        if (c.op as usize) < OPL.len() {
            obs.label(OPL[c.op as usize]);
        }
        let tn = c.g.type_name();
        obs.label(format!("type:{tn}"));
        let mut gg = to_geo(&c.g, &c.xf);
        // non-finite injection (polygons and multipolygons only; tracked as (member, ring))
        let mut nf: Option<(usize, usize)> = None;
        if let Some((m, r, i, kind, xy)) = c.nonfinite {
            let val = [f64::NAN, f64::INFINITY, f64::NEG_INFINITY][kind as usize % 3];
            let mut inject = |p: &mut Polygon<f64>, member: usize| {
                let nrings = 1 + p.interiors().len();
                let ri = r as usize % nrings;
                let set = |ls: &mut geo::LineString<f64>| {
                    if ls.0.is_empty() {
                        return false;
                    }
                    let k = i as usize % ls.0.len();
                    if xy == 0 { ls.0[k].x = val } else { ls.0[k].y = val }
                    true
                };
                let mut done = false;
                if ri == 0 {
                    p.exterior_mut(|ls| done = set(ls));
                } else {
                    p.interiors_mut(|rs| done = set(&mut rs[ri - 1]));
                }
                if done {
                    nf = Some((member, ri));
                }
            };
            match &mut gg {
                Geometry::Polygon(p) => inject(p, 0),
                Geometry::MultiPolygon(mp) if !mp.0.is_empty() => {
                    let k = m as usize % mp.0.len();
                    inject(&mut mp.0[k], k)
                }
                _ => {}
            }
            if nf.is_some() {
                obs.label("nonfinite");
            }
        }
        let ctx = || format!("g={} nonfinite={:?} xf={:?}", wkt(&c.g), c.nonfinite, c.xf);
        macro_rules! api {
            ($x:expr) => {{
                let x = $x;
                guard(std::panic::AssertUnwindSafe(|| (x.is_valid(), x.validation_errors(), x.check_validation().err())))
            }};
        }
        match (&c.g, &gg) {
            (G::Polygon(mp), Geometry::Polygon(p)) => {
                let rep = poly_report(mp);
                let want = rep.valid_c14() && nf.is_none();
                obs.label(if want { "oracle:valid" } else { "oracle:invalid" });
                if !want || !mp.holes.is_empty() {
                    obs.nontrivial();
                }
                match api!(p) {
                    Err(pn) => obs.fail(format!("validation:Polygon|panic|{}", pn.site()), format!("{} {}", pn, ctx())),
                    Ok((valid, errs, first)) => {
                        // with a non-finite coordinate the ring-vs-ring relations are undefined: only the bit is compared
                        let class = classify(&rep);
                        obs.expect(valid == want, &format!("is_valid:Polygon|got={valid},want={want}|{class}"), || format!("oracle report {:?}; geo errors {:?}; {}", rep, errs, ctx()));
                        obs.expect(errs.is_empty() == valid, "validation_errors:Polygon|inconsistent-with-is_valid", || format!("{:?} vs {valid}; {}", errs, ctx()));
                        obs.expect(first.as_ref() == errs.first(), "check_validation:Polygon|not-the-first-error", || format!("{:?} vs {:?}; {}", first, errs, ctx()));
                        if n_defects(&rep) + nf.is_some() as usize == 1 {
                            obs.label("single-defect");
                            for e in &errs {
                                obs.expect(confirms(&rep, e, nf.map(|x| x.1)), &format!("validation_errors:Polygon|unconfirmed:{}", err_kind(e)), || format!("{:?} not confirmed by {:?}; {}", e, rep, ctx()));
                            }
                        }
                    }
                }
            }
            (G::MultiPolygon(mv), Geometry::MultiPolygon(p)) => {
                let rep = mpoly_report(mv);
                let want = rep.valid() && nf.is_none();
                obs.label(if want { "oracle:valid" } else { "oracle:invalid" });
                if !want || mv.len() > 1 {
                    obs.nontrivial();
                }
                match api!(p) {
                    Err(pn) => obs.fail(format!("validation:MultiPolygon|panic|{}", pn.site()), format!("{} {}", pn, ctx())),
                    Ok((valid, errs, first)) => {
                        let class = if !rep.invalid_members.is_empty() {
                            format!("member:{}", classify(&poly_report(&mv[rep.invalid_members[0]])))
                        } else if !rep.members_overlap.is_empty() {
                            "members-overlap".to_string()
                        } else if !rep.members_share_line.is_empty() {
                            "members-share-line".to_string()
                        } else {
                            "none".to_string()
                        };
                        obs.expect(valid == want, &format!("is_valid:MultiPolygon|got={valid},want={want}|{class}"), || format!("oracle {:?}; geo errors {:?}; {}", rep, errs, ctx()));
                        obs.expect(errs.is_empty() == valid, "validation_errors:MultiPolygon|inconsistent-with-is_valid", || format!("{:?} vs {valid}; {}", errs, ctx()));
                        obs.expect(first.as_ref() == errs.first(), "check_validation:MultiPolygon|not-the-first-error", || format!("{:?} vs {:?}; {}", first, errs, ctx()));
                        let total: usize = mv.iter().map(|m| n_defects(&poly_report(m))).sum::<usize>() + rep.members_overlap.len() + rep.members_share_line.len() + nf.is_some() as usize;
                        if total == 1 {
                            obs.label("single-defect");
                            for e in &errs {
                                let ok = match e {
                                    InvalidMultiPolygon::InvalidPolygon(i, pe) => i.0 < mv.len() && confirms(&poly_report(&mv[i.0]), pe, nf.filter(|x| x.0 == i.0).map(|x| x.1)),
                                    InvalidMultiPolygon::ElementsOverlaps(i, j) => rep.members_overlap.contains(&(i.0.min(j.0), i.0.max(j.0))) || rep.invalid_members.contains(&i.0) || rep.invalid_members.contains(&j.0),
                                    InvalidMultiPolygon::ElementsTouchOnALine(i, j) => rep.members_share_line.contains(&(i.0.min(j.0), i.0.max(j.0))) || rep.invalid_members.contains(&i.0) || rep.invalid_members.contains(&j.0),
                                };
                                obs.expect(ok, "validation_errors:MultiPolygon|unconfirmed", || format!("{:?} not confirmed by {:?}; {}", e, rep, ctx()));
                            }
                        }
                    }
                }
            }
            _ => {
                // other types: OGC-valid input must be accepted; the three entry points must agree
                let domain = in_relate_domain(&c.g);
                macro_rules! other {
                    ($($v:ident),*) => { match &gg { $( Geometry::$v(x) => api!(x).map(|(v, e, f)| (v, e.len(), f.is_some(), e.first().map(|q| format!("{:?}", q)), f.map(|q| format!("{:?}", q)))), )* } }
                }
                let r = other!(Point, Line, LineString, Polygon, MultiPoint, MultiLineString, MultiPolygon, Rect, Triangle, GeometryCollection);
                match r {
                    Err(pn) => obs.fail(format!("validation:{tn}|panic|{}", pn.site()), format!("{} {}", pn, ctx())),
                    Ok((valid, nerr, has_first, e0, f0)) => {
                        if domain {
                            obs.label("oracle:valid");
                            obs.expect(valid, &format!("is_valid:{tn}|rejects-valid-input"), || format!("first error {:?}; {}", e0, ctx()));
                        }
                        obs.expect((nerr == 0) == valid, &format!("validation_errors:{tn}|inconsistent-with-is_valid"), || ctx());
                        obs.expect(has_first == !valid && e0 == f0, &format!("check_validation:{tn}|not-the-first-error"), || format!("{:?} vs {:?}; {}", f0, e0, ctx()));
                    }
                }
                let ge = api!(&gg);
                if let Ok((valid, errs, _)) = ge {
                    obs.expect(errs.is_empty() == valid, &format!("validation_errors:Geometry[{tn}]|inconsistent-with-is_valid"), || ctx());
                }
            }
        }
        let _ = MultiPolygon::<f64>::new(vec![]);
    }
}

fn check_small(sm: &Small, obs: &mut Obs) {
    let gg = small_to_geo(sm);
    let tn = crate::conv::geom_type_name(&gg);
    obs.label("sub:other-types-adversarial");
    obs.label(format!("type:{tn}"));
    let mut labels = vec![];
    let expected = small_expected(sm, &mut labels);
    for l in labels {
        obs.label(l);
    }
    let want_valid = small_valid(sm);
    if want_valid == Some(false) {
        obs.label("oracle:invalid");
        obs.nontrivial();
    } else if want_valid == Some(true) {
        obs.label("oracle:valid");
    }
    let ctx = || format!("{:?}", sm);
    macro_rules! run {
        ($($v:ident),*) => { match &gg { $( Geometry::$v(x) => guard(std::panic::AssertUnwindSafe(|| {
            let errs: Vec<String> = x.validation_errors().iter().map(|e| format!("{:?}", e)).collect();
            (x.is_valid(), errs, x.check_validation().err().map(|e| format!("{:?}", e)))
        })), )* } }
    }
    let r = run!(Point, Line, LineString, Polygon, MultiPoint, MultiLineString, MultiPolygon, Rect, Triangle, GeometryCollection);
    match r {
        Err(pn) => obs.fail(format!("validation:{tn}|panic|{}", pn.site()), format!("{} {}", pn, ctx())),
        Ok((valid, errs, first)) => {
            obs.cmp();
            if let Some(w) = want_valid {
                obs.expect(valid == w, &format!("is_valid:{tn}|got={valid},want={w}"), || format!("errors {:?}; {}", errs, ctx()));
            }
            obs.expect(errs.is_empty() == valid, &format!("validation_errors:{tn}|inconsistent-with-is_valid"), || format!("{:?}; {}", errs, ctx()));
            obs.expect(first == errs.first().cloned(), &format!("check_validation:{tn}|not-the-first-error"), || format!("{:?} vs {:?}; {}", first, errs, ctx()));
            if let Some(mut want) = expected {
                let mut got = errs.clone();
                got.sort();
                want.sort();
                obs.expect(got == want, &format!("validation_errors:{tn}|wrong-errors"), || format!("got {:?} want {:?}; {}", got, want, ctx()));
            }
        }
    }
    // the Geometry enum gives the same verdict
    if let Ok((v2, e2)) = guard(std::panic::AssertUnwindSafe(|| (gg.is_valid(), gg.validation_errors().len()))) {
        obs.expect((e2 == 0) == v2, &format!("validation_errors:Geometry[{tn}]|inconsistent-with-is_valid"), || ctx());
        if let Some(w) = want_valid {
            obs.expect(v2 == w, &format!("is_valid:Geometry[{tn}]|got={v2},want={w}"), || ctx());
        }
    }
}

const OPL: [&str; 18] = [
    "op:none", "op:swap-vertices", "op:spike", "op:collinear-ring", "op:revisit-vertex", "op:hole-outside", "op:hole-across-shell", "op:hole-shares-shell-edge",
    "op:second-hole-equal/edge/nested", "op:too-few-coordinates", "op:repeated-vertex", "op:hole-equals-shell", "op:member-duplicated", "op:member-overlapping",
    "op:member-shares-edge", "op:member-nested", "op:member-far", "op:member-touches-at-vertex",
];

fn err_kind(e: &InvalidPolygon) -> &'static str {
    match e {
        InvalidPolygon::TooFewPointsInRing(_) => "TooFewPointsInRing",
        InvalidPolygon::SelfIntersection(_) => "SelfIntersection",
        InvalidPolygon::NonFiniteCoord(..) => "NonFiniteCoord",
        InvalidPolygon::InteriorRingNotContainedInExteriorRing(_) => "InteriorRingNotContainedInExteriorRing",
        InvalidPolygon::IntersectingRingsOnALine(..) => "IntersectingRingsOnALine",
        InvalidPolygon::IntersectingRingsOnAnArea(..) => "IntersectingRingsOnAnArea",
    }
}

/// the (first) defect class the oracle sees, for failure keys
fn classify(rep: &PolyReport) -> String {
    if let Some((_, d)) = rep.ring_defects.first() {
        return format!("ring:{:?}", d);
    }
    if !rep.rings_cross.is_empty() {
        return "hole-crosses-shell".into();
    }
    if !rep.hole_not_inside.is_empty() {
        return "hole-not-inside".into();
    }
    if !rep.rings_share_line.is_empty() {
        return "rings-share-line".into();
    }
    if !rep.holes_overlap.is_empty() {
        return "holes-overlap".into();
    }
    "none".into()
}
