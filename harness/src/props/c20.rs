//! C20 — results are a function of the inputs alone (no run or thread dependence).
use crate::conv::{to_geo, wkt, Xf};
use crate::engine::{guard, Failure, Obs, Property, Tier};
use crate::exact::C;
use crate::gen::{areal_scene_strategy, areal_strategy, ArealScene};
use crate::refgeom::validity::in_relate_domain;
use crate::refgeom::G;
use geo::bool_ops::{unary_union, BooleanOps};
use geo::triangulate_delaunay::{DelaunayTriangulationConfig, TriangulateDelaunay};
use geo::{
    ConcaveHull, ConvexHull, Coord, Geometry, KNearestConcaveHull, LineString, MultiPoint, MultiPolygon, OutlierDetection, Point, Polygon, Relate, Simplify,
    StitchTriangles, Triangle, TriangulateEarcut,
};
use proptest::prelude::*;
use serde::{Deserialize, Serialize};
use serde_json::{json, Value};
use std::path::Path;
use std::sync::OnceLock;

#[derive(Clone, Debug, Serialize, Deserialize)]
pub enum Work {
    /// the four Boolean operations on a small lattice pair
    Bool { a: G, b: G },
    /// unary_union of n x n unit squares at spacing (16 - overlap)/16: above i_overlay's parallel thresholds for n >= 45
    GridUnion { n: u16, overlap: u8 },
    /// xor / intersection of two interleaved combs with `teeth` teeth each
    Comb { teeth: u16, op: u8 },
    /// stitch the ear-cut triangles of a (multi)polygon together with `squares` separate squares
    Stitch { g: G, squares: u8 },
    /// constrained / unconstrained Delaunay triangulation
    Triangulate { g: G, kind: u8 },
    Concave { pts: Vec<C>, concavity: u8 },
    KNearest { pts: Vec<C>, k: u8 },
    Outliers { pts: Vec<C>, k: u8 },
    /// cheap collection-producing algorithms on a pair
    Misc { a: G, b: G },
    /// a history of relate calls on ONE prepared geometry (first / second operand, alternating partners):
    /// the matrices must not depend on the calls made before
    Prepared { p: G, partners: Vec<G>, order: Vec<u8> },
}

#[derive(Clone, Debug, Serialize, Deserialize)]
pub struct Case {
    pub work: Work,
}

pub struct C20;

fn to_mp(g: &G) -> MultiPolygon<f64> {
    match to_geo(g, &Xf::ID) {
        Geometry::Polygon(p) => MultiPolygon::new(vec![p]),
        Geometry::MultiPolygon(m) => m,
        _ => MultiPolygon::new(vec![]),
    }
}

fn square(x: f64, y: f64, s: f64) -> Polygon<f64> {
    Polygon::new(LineString::from(vec![(x, y), (x + s, y), (x + s, y + s), (x, y + s), (x, y)]), vec![])
}

fn comb(teeth: u16, dx: f64, dy: f64) -> Polygon<f64> {
    // a comb with `teeth` teeth of width 1, pitch 2, height 10, on a spine of height 1
    let mut pts = vec![(dx, dy)];
    let w = teeth as f64 * 2.0;
    pts.push((dx + w, dy));
    pts.push((dx + w, dy + 1.0));
    for t in (0..teeth).rev() {
        let x = dx + t as f64 * 2.0;
        pts.push((x + 1.0, dy + 1.0));
        pts.push((x + 1.0, dy + 11.0));
        pts.push((x, dy + 11.0));
        pts.push((x, dy + 1.0));
    }
    pts.push((dx, dy));
    Polygon::new(LineString::from(pts), vec![])
}

/// run the workload and return the debug rendering of its complete output (order- and bit-sensitive)
pub fn execute(w: &Work) -> String {
    match w {
        Work::Bool { a, b } => {
            let (ga, gb) = (to_mp(a), to_mp(b));
            format!("{:?}|{:?}|{:?}|{:?}|{:?}", ga.intersection(&gb), ga.union(&gb), ga.difference(&gb), ga.xor(&gb), unary_union(ga.0.iter().chain(gb.0.iter())))
        }
        Work::GridUnion { n, overlap } => {
            let step = (16 - (*overlap % 8)) as f64 / 16.0;
            let mut v = Vec::with_capacity(*n as usize * *n as usize);
            for i in 0..*n {
                for j in 0..*n {
                    v.push(square(i as f64 * step, j as f64 * step * 1.5, 1.0));
                }
            }
            format!("{:?}", unary_union(v.iter()))
        }
        Work::Comb { teeth, op } => {
            let (a, b) = (comb(*teeth, 0.0, 0.0), comb(*teeth, 0.5, 5.0));
            match op % 3 {
                0 => format!("{:?}", a.xor(&b)),
                1 => format!("{:?}", a.intersection(&b)),
                _ => format!("{:?}", a.union(&b)),
            }
        }
        Work::Stitch { g, squares } => {
            let mp = to_mp(g);
            let mut tris: Vec<Triangle<f64>> = mp.0.iter().flat_map(|p| p.earcut_triangles()).collect();
            for k in 0..*squares {
                let sq = square(100.0 + 3.0 * k as f64, 100.0 + 2.0 * (k % 3) as f64, 1.0);
                tris.extend(sq.earcut_triangles());
            }
            // sums over the members of a MultiPolygon (geodesic perimeter / area of 16+ small lon/lat squares): a re-associated
            // floating-point sum would change the last bits from call to call
            let geod = {
                use geo::GeodesicArea;
                let n = 16 + *squares as usize;
                let many = MultiPolygon::new((0..n).map(|k| square(-170.0 + 7.3 * k as f64 * 0.37, -60.0 + 1.9 * (k % 11) as f64, 0.013 * (1 + k % 5) as f64)).collect());
                format!("{:?}|{:?}|{:?}|{:?}", many.geodesic_perimeter().to_bits(), many.geodesic_area_signed().to_bits(), many.geodesic_area_unsigned().to_bits(), many.geodesic_perimeter_area_signed())
            };
            format!("{:?}|{geod}", tris.stitch_triangulation())
        }
        Work::Triangulate { g, kind } => {
            let mp = to_mp(g);
            match kind % 3 {
                0 => format!("{:?}", mp.constrained_triangulation(DelaunayTriangulationConfig::default())),
                1 => format!("{:?}", mp.constrained_outer_triangulation(DelaunayTriangulationConfig::default())),
                _ => format!("{:?}", mp.unconstrained_triangulation()),
            }
        }
        Work::Concave { pts, concavity } => {
            let mp = MultiPoint::new(pts.iter().map(|p| Point::new(p.0 as f64, p.1 as f64)).collect());
            format!("{:?}", mp.concave_hull(0.5 + *concavity as f64 / 4.0))
        }
        Work::KNearest { pts, k } => {
            let v: Vec<Coord<f64>> = pts.iter().map(|p| Coord { x: p.0 as f64, y: p.1 as f64 }).collect();
            // the planar sweep over the segments between consecutive points (overlapping and duplicate segments included):
            // pairs are reported in an order that must not depend on where the segments happen to be allocated
            let sweep = {
                let lines: Vec<geo::Line<f64>> = v.windows(2).filter(|w| w[0] != w[1]).map(|w| geo::Line::new(w[0], w[1])).take(10).collect();
                let pairs: Vec<_> = geo::algorithm::sweep::Intersections::<geo::Line<f64>>::from_iter(lines).collect();
                format!("{:?}", pairs)
            };
            format!("{:?}|{sweep}", v.k_nearest_concave_hull(1 + (*k % 6) as u32))
        }
        Work::Outliers { pts, k } => {
            let mp = MultiPoint::new(pts.iter().map(|p| Point::new(p.0 as f64, p.1 as f64)).collect());
            let k = (1 + (*k as usize % 5)).min(pts.len().saturating_sub(1)).max(1);
            let det = mp.prepared_detector();
            // history independence of a reused detector: after runs with other neighbourhood sizes (wider and
            // narrower) it answers like a fresh one
            let n = pts.len().saturating_sub(1).max(1);
            let hist: Vec<usize> = [k + 3, 1, k + 1, k].iter().map(|q| (*q).min(n).max(1)).collect();
            let mut same = true;
            let mut last = vec![];
            for q in &hist {
                last = det.outliers(*q);
                same &= format!("{:?}", last) == format!("{:?}", mp.prepared_detector().outliers(*q));
            }
            format!("{:?}|{:?}|{}", mp.outliers(k), last, if same { "same-as-fresh" } else { "DIFFERS-from-fresh" })
        }
        Work::Prepared { p, partners, order } => {
            use geo::relate::PreparedGeometry;
            let gp = to_geo(p, &Xf::ID);
            let gqs: Vec<Geometry<f64>> = partners.iter().map(|q| to_geo(q, &Xf::ID)).collect();
            let prep = PreparedGeometry::from(&gp);
            let mut out = String::new();
            for o in order {
                let q = &gqs[(*o as usize >> 1) % gqs.len()];
                let m = if o & 1 == 0 { prep.relate(q) } else { q.relate(&prep) };
                out += &format!("{:?};", m);
            }
            // the same questions asked one by one of a fresh prepared geometry each
            let mut fresh = String::new();
            for o in order {
                let q = &gqs[(*o as usize >> 1) % gqs.len()];
                let pr = PreparedGeometry::from(&gp);
                let m = if o & 1 == 0 { pr.relate(q) } else { q.relate(&pr) };
                fresh += &format!("{:?};", m);
            }
            format!("{out}|{}", if fresh == out { "same-as-fresh" } else { fresh.as_str() })
        }
        Work::Misc { a, b } => {
            let (ga, gb) = (to_geo(a, &Xf::ID), to_geo(b, &Xf::ID));
            let simp = match &ga {
                Geometry::Polygon(p) => format!("{:?}", p.simplify(1.0)),
                Geometry::MultiPolygon(p) => format!("{:?}", p.simplify(1.0)),
                _ => String::new(),
            };
            // further collection-producing algorithms on the same operands: clip, boolean_op, monotone subdivision,
            // validation errors, densify, Visvalingam-Whyatt, and the rayon iterators of the Multi* types (merged in input order)
            let more = {
                use geo::algorithm::bool_ops::OpType;
                use geo::algorithm::monotone::MonotonicPolygons;
                use geo::algorithm::validation::Validation;
                use geo::line_measures::Densify;
                use geo::{BooleanOps, Euclidean, MultiLineString, SimplifyVw, SimplifyVwPreserve};
                use rayon::prelude::*;
                let mp = |g: &Geometry<f64>| match g { Geometry::Polygon(p) => MultiPolygon::new(vec![p.clone()]), Geometry::MultiPolygon(m) => m.clone(), _ => MultiPolygon::new(vec![]) };
                let (ma, mb) = (mp(&ga), mp(&gb));
                let lines = MultiLineString::new(mb.0.iter().map(|p| p.exterior().clone()).collect());
                let par_polys: Vec<String> = ma.par_iter().map(|p| format!("{:?}", p.exterior().0.first())).collect();
                let par_lines: Vec<usize> = lines.par_iter().map(|l| l.0.len()).collect();
                let par_pts: Vec<String> = geo::MultiPoint::new(ma.0.iter().flat_map(|p| p.exterior().points()).collect()).par_iter().map(|p| format!("{:?}", p)).collect();
                let seq_polys: Vec<String> = ma.iter().map(|p| format!("{:?}", p.exterior().0.first())).collect();
                // point queries on one MonotonicPolygons object, in two different orders, against fresh objects (no query may
                // leave a trace that changes a later answer)
                let mono = MonotonicPolygons::from(ma.clone());
                let qpts: Vec<Coord<f64>> = {
                    use geo::CoordsIter;
                    let mut v: Vec<Coord<f64>> = ma.coords_iter().chain(mb.coords_iter()).collect();
                    let mids: Vec<Coord<f64>> = v.windows(2).map(|w| Coord { x: (w[0].x + w[1].x) / 2.0, y: (w[0].y + w[1].y) / 2.0 }).collect();
                    v.extend(mids);
                    v.truncate(60);
                    v
                };
                let mut hist_same = true;
                for pass in 0..2 {
                    let order: Vec<usize> = if pass == 0 { (0..qpts.len()).collect() } else { (0..qpts.len()).rev().collect() };
                    for i in order {
                        use geo::Intersects;
                        hist_same &= mono.intersects(&qpts[i]) == MonotonicPolygons::from(ma.clone()).intersects(&qpts[i]);
                    }
                }
                // constraint lines that cross or overlap (the two operands together, as a Vec of polygons)
                let crossing: Vec<Polygon<f64>> = ma.0.iter().chain(mb.0.iter()).cloned().collect();
                let tri_crossing = {
                    use geo::triangulate_delaunay::{DelaunayTriangulationConfig, TriangulateDelaunay};
                    format!("{:?}", TriangulateDelaunay::constrained_outer_triangulation(&crossing, DelaunayTriangulationConfig::default()).map_err(|e| e.to_string()))
                };
                // many-vertex versions of both operands (densified: 40 and more segments per ring, coordinates that are not
                // integers): area and centroid of equal polygons held in DIFFERENT buffers (several clones alive at once, the
                // allocator places them differently from run to run), and the deprecated TriangulateSpade on their overlapping
                // union (64 and more constraint lines with crossings)
                let dense = |m: &MultiPolygon<f64>| -> MultiPolygon<f64> {
                    use geo::MapCoords;
                    Euclidean.densify(m, 0.37).map_coords(|c| Coord { x: c.x * 0.1 + 0.3, y: c.y * 0.7 - 0.1 })
                };
                let (da, db) = (dense(&ma), dense(&mb));
                let mut keep: Vec<(Vec<u8>, MultiPolygon<f64>)> = vec![];
                let mut measures: Vec<String> = vec![];
                for k in 0..6usize {
                    let junk = vec![0u8; 8 + 40 * k];
                    let cl = da.clone();
                    measures.push(format!("{:?} {:?} {:?}", geo::Area::signed_area(&cl), geo::Area::unsigned_area(&cl), geo::Centroid::centroid(&cl)));
                    keep.push((junk, cl));
                }
                let buffer_independent = measures.windows(2).all(|w| w[0] == w[1]);
                let spade_big = {
                    #[allow(deprecated)]
                    {
                        use geo::TriangulateSpade;
                        let both = MultiPolygon::new(da.0.iter().chain(db.0.iter()).cloned().collect());
                        // (resolving the crossings of the constraint lines is quadratic per crossing: bounded input only)
                        let n = { use geo::CoordsIter; both.coords_count() };
                        if (64..=140).contains(&n) {
                            format!("{:?}", TriangulateSpade::constrained_outer_triangulation(&both, Default::default()).map_err(|e| e.to_string()))
                        } else {
                            format!("not run for {n} coordinates")
                        }
                    }
                };
                let order_kept = hist_same && par_polys == seq_polys && par_lines == lines.iter().map(|l| l.0.len()).collect::<Vec<_>>();
                format!(
                    "{}|{}|{}|{}|{:?}|{:?}|{:?}|{:?}|{:?}|{:?}|{:?}|{:?}|{:?}|{:?}|{}",
                    measures[0], if buffer_independent { "buffer-independent" } else { "AREA-OR-CENTROID-DEPENDS-ON-THE-BUFFER" }, spade_big,
                    tri_crossing, ma.clip(&lines, false), ma.clip(&lines, true), ma.boolean_op(&mb, OpType::Xor),
                    MonotonicPolygons::from(ma.clone()).subdivisions().iter().map(|m| m.clone().into_polygon()).collect::<Vec<_>>(),
                    ma.validation_errors(), Euclidean.densify(&ma, 1.5), ma.simplify_vw(0.5), mb.simplify_vw_preserve(0.5),
                    par_pts, par_polys, if order_kept { "par-order-kept" } else if !hist_same { "MONOTONE-QUERY-HISTORY-DEPENDENT" } else { "PAR-ORDER-CHANGED" }
                )
            };
            format!("{:?}|{:?}|{:?}|{}|{}", ga.relate(&gb), ga.convex_hull(), gb.convex_hull(), simp, more)
        }
    }
}

fn digest(s: &str) -> u64 {
    use std::hash::Hasher;
    #[allow(deprecated)]
    let mut h = std::hash::SipHasher::new();
    h.write(s.as_bytes());
    h.finish()
}

fn pools() -> &'static Vec<(usize, rayon::ThreadPool)> {
    static P: OnceLock<Vec<(usize, rayon::ThreadPool)>> = OnceLock::new();
    P.get_or_init(|| [1usize, 2, 3, 16].iter().map(|n| (*n, rayon::ThreadPoolBuilder::new().num_threads(*n).build().expect("rayon pool"))).collect())
}

/// number of members / rings in the output (order can only vary with >= 2)
fn multiplicity(out: &str) -> usize {
    // members / rings / triangles / points are separated by "),(" or ", " in the Debug rendering
    1 + out.matches("),(").count().max(out.matches("TRIANGLE").count().saturating_sub(1)).max(out.matches("POINT").count().saturating_sub(1))
}

fn pts_strategy() -> impl Strategy<Value = Vec<C>> {
    proptest::collection::vec((0i64..30, 0i64..30), 4..40)
}

pub fn work_strategy(large: bool) -> BoxedStrategy<Work> {
    let small = prop_oneof![
        6 => areal_scene_strategy().prop_map(|ArealScene { a, b, .. }| Work::Bool { a, b }),
        4 => (areal_strategy(), 0u8..14).prop_map(|(g, squares)| Work::Stitch { g, squares }),
        3 => (areal_strategy(), 0u8..3).prop_map(|(g, kind)| Work::Triangulate { g, kind }),
        2 => (pts_strategy(), 0u8..8).prop_map(|(pts, concavity)| Work::Concave { pts, concavity }),
        2 => (pts_strategy(), 0u8..6).prop_map(|(pts, k)| Work::KNearest { pts, k }),
        2 => (pts_strategy(), 0u8..5).prop_map(|(pts, k)| Work::Outliers { pts, k }),
        3 => areal_scene_strategy().prop_map(|ArealScene { a, b, .. }| Work::Misc { a, b }),
        3 => (crate::gen::scene_strategy(4), proptest::collection::vec(any::<u8>(), 2..8)).prop_map(|(s, order)| Work::Prepared { p: s.a, partners: s.partners, order }),
    ];
    if large {
        prop_oneof![
            1 => (46u16..70, 0u8..8).prop_map(|(n, overlap)| Work::GridUnion { n, overlap }),
            1 => (2100u16..4200, 0u8..3).prop_map(|(teeth, op)| Work::Comb { teeth, op }),
        ]
        .boxed()
    } else {
        small.boxed()
    }
}

impl Property for C20 {
    type Case = Case;
    const ID: &'static str = "C20";
    fn strategy(_tier: Tier) -> BoxedStrategy<Case> {
        prop_oneof![400 => work_strategy(false), 1 => work_strategy(true)].prop_map(|work| Case { work }).boxed()
    }
    fn quota(tier: Tier) -> u64 {
        tier.pick(60_000, 1_000_000)
    }
    fn rule() -> String {
        "Workloads: the four Boolean operations + unary_union on small lattice pairs; unary_union of 46^2..70^2 overlapping \
         squares and xor / intersection / union of two 2100..4200-tooth combs (8 000 - 34 000 segments: above i_overlay's \
         parallel-split threshold of 8 000 and, for the largest, its 32 768 parallel-sort threshold); stitch_triangulation of \
         ear-cut multipolygons with up to 13 extra separate squares; constrained / outer / unconstrained Delaunay triangulation; \
         concave_hull, k_nearest_concave_hull, outlier detection on 4-40 lattice points; relate + hulls + simplify. Oracle: \
         equality of the complete Debug rendering of the output (member order, ring order, coordinate bits). Each workload runs \
         twice in a row, once more after unrelated work, inside rayon pools of 1, 2, 3 and 16 threads and on the global pool; a \
         seed-derived subset (incl. every large one) is re-run in 3 fresh processes (new hash seeds, new heap layout) under \
         RAYON_NUM_THREADS = 1, 2, 16. Non-trivial = the output has >= 2 members / rings."
            .into()
    }
    fn assumptions() -> Vec<String> {
        vec!["thread interleavings inside rayon are sampled (pool sizes 1, 2, 3, 16 and repeated runs), not enumerated: this family of technique does not own rayon's scheduler".into()]
    }
    fn must_hit() -> Vec<&'static str> {
        vec!["work:Bool", "work:Stitch", "work:Triangulate", "work:Concave", "work:KNearest", "work:Outliers", "work:Misc", "work:Prepared", "multi-member-output"]
    }
    fn show(c: &Case) -> Value {
        match &c.work {
            Work::Bool { a, b } => json!({"Bool": {"a": wkt(a), "b": wkt(b)}}),
            Work::Stitch { g, squares } => json!({"Stitch": {"g": wkt(g), "squares": squares}}),
            Work::Triangulate { g, kind } => json!({"Triangulate": {"g": wkt(g), "kind": kind}}),
            Work::Misc { a, b } => json!({"Misc": {"a": wkt(a), "b": wkt(b)}}),
            Work::Prepared { p, partners, order } => json!({"Prepared": {"p": wkt(p), "partners": partners.iter().map(wkt).collect::<Vec<_>>(), "order": order}}),
            w => serde_json::to_value(w).unwrap_or(Value::Null),
        }
    }
    fn check(c: &Case, obs: &mut Obs) {
        let name = match &c.work {
            Work::Bool { a, b } | Work::Misc { a, b } => {
                if !(in_relate_domain(a) && in_relate_domain(b)) {
                    obs.label("skipped:out-of-domain");
                    return;
                }
                if matches!(c.work, Work::Bool { .. }) { "Bool" } else { "Misc" }
            }
            Work::Prepared { p, partners, order } => {
                if !in_relate_domain(p) || partners.is_empty() || !partners.iter().all(in_relate_domain) || order.is_empty() {
                    obs.label("skipped:out-of-domain");
                    return;
                }
                "Prepared"
            }
            Work::Stitch { g, .. } | Work::Triangulate { g, .. } => {
                if !in_relate_domain(g) || !matches!(g, G::Polygon(_) | G::MultiPolygon(_)) {
                    obs.label("skipped:out-of-domain");
                    return;
                }
                if matches!(c.work, Work::Stitch { .. }) { "Stitch" } else { "Triangulate" }
            }
            Work::GridUnion { n, .. } => {
                if *n > 80 { obs.label("skipped:out-of-domain"); return; }
                "GridUnion"
            }
            Work::Comb { teeth, .. } => {
                if *teeth > 5000 { obs.label("skipped:out-of-domain"); return; }
                "Comb"
            }
            Work::Concave { pts, .. } | Work::KNearest { pts, .. } | Work::Outliers { pts, .. } => {
                if pts.len() < 3 || pts.len() > 200 { obs.label("skipped:out-of-domain"); return; }
                match c.work { Work::Concave { .. } => "Concave", Work::KNearest { .. } => "KNearest", _ => "Outliers" }
            }
        };
        obs.label(format!("work:{name}"));
        let run = || guard(std::panic::AssertUnwindSafe(|| execute(&c.work)));
        let first = match run() {
            Ok(s) => s,
            Err(p) => {
                // a panic is not a determinism violation by itself, but it must be the same panic every time
                obs.label("panics");
                let again = run();
                obs.expect(again.is_err(), &format!("{name}|panics-only-sometimes"), || format!("{} then ok; {:?}", p, c.work));
                return;
            }
        };
        if name == "Misc" {
            obs.expect(first.ends_with("par-order-kept"), "Misc|rayon-iterator-reorders-members-or-query-history", || format!("{first}; work {:?}", Self::show(c)));
        }
        if name == "Outliers" {
            obs.expect(first.ends_with("|same-as-fresh"), "Outliers|history-dependent", || format!("reused PreparedDetector vs fresh ones: {first}; work {:?}", Self::show(c)));
        }
        if name == "Prepared" {
            obs.expect(first.ends_with("|same-as-fresh"), "Prepared|history-dependent", || format!("reused prepared geometry vs fresh ones: {first}; work {:?}", Self::show(c)));
        }
        if multiplicity(&first) >= 2 {
            obs.label("multi-member-output");
            obs.nontrivial();
        }
        let d0 = digest(&first);
        let mut compare = |what: &str, r: Result<String, crate::engine::PanicInfo>, obs: &mut Obs| match r {
            Ok(s) => {
                obs.cmp();
                if digest(&s) != d0 {
                    let at = first.bytes().zip(s.bytes()).position(|(x, y)| x != y).unwrap_or(first.len().min(s.len()));
                    let lo = at.saturating_sub(80);
                    obs.fail(
                        format!("{name}|differs|{what}"),
                        format!("outputs differ from byte {at}: ...{} vs ...{}; work {:?}", &first[lo..(at + 80).min(first.len())], &s[lo..(at + 80).min(s.len())], Self::show(c)),
                    );
                }
            }
            Err(p) => obs.fail(format!("{name}|panic-on-repeat|{what}"), format!("{} work {:?}", p, Self::show(c))),
        };
        compare("second-call", run(), obs);
        // unrelated work in between (allocations, another algorithm) then a third call
        let junk: Vec<Vec<u8>> = (0..8).map(|i| vec![i as u8; 100 + 37 * i]).collect();
        let _ = execute(&Work::Concave { pts: vec![(0, 0), (3, 1), (1, 4), (5, 5), (2, 2)], concavity: 2 });
        drop(junk);
        compare("after-unrelated-work", run(), obs);
        for (n, pool) in pools().iter() {
            compare(&format!("pool-of-{n}"), pool.install(run), obs);
        }
    }

    fn extra_phase(tier: Tier, seed: u64, _root: &Path) -> (Value, Vec<(Value, Failure)>) {
        // cross-process phase: a seed-derived list of workloads, incl. every kind of large one
        let (n_small, n_large) = tier.pick((40, 6), (400, 40));
        let mut works: Vec<Work> = crate::engine::sample_strategy(&work_strategy(false), n_small, seed ^ 0xc20);
        works.extend(crate::engine::sample_strategy(&work_strategy(true), n_large, seed ^ 0xc21));
        let lines: Vec<String> = works.iter().map(|w| serde_json::to_string(w).unwrap()).collect();
        let input = lines.join("\n") + "\n";
        let exe = match std::env::current_exe() {
            Ok(e) => e,
            Err(e) => return (json!({"cross_process": format!("skipped: {e}")}), vec![]),
        };
        let mut runs: Vec<(String, Vec<String>)> = vec![];
        let configs: Vec<&str> = tier.pick(vec!["1", "2", "16"], vec!["1", "2", "3", "16", "7", ""]);
        let t0 = std::time::Instant::now();
        for threads in &configs {
            use std::io::Write;
            let mut cmd = std::process::Command::new(&exe);
            cmd.arg("det-child").stdin(std::process::Stdio::piped()).stdout(std::process::Stdio::piped()).stderr(std::process::Stdio::null());
            if threads.is_empty() { cmd.env_remove("RAYON_NUM_THREADS"); } else { cmd.env("RAYON_NUM_THREADS", threads); }
            let mut child = match cmd.spawn() {
                Ok(c) => c,
                Err(e) => return (json!({"cross_process": format!("skipped: {e}")}), vec![]),
            };
            let mut stdin = child.stdin.take().unwrap();
            let inp = input.clone();
            let writer = std::thread::spawn(move || { let _ = stdin.write_all(inp.as_bytes()); });
            let out = child.wait_with_output();
            let _ = writer.join();
            match out {
                Ok(o) if o.status.success() => runs.push((threads.to_string(), String::from_utf8_lossy(&o.stdout).lines().map(|s| s.to_string()).collect())),
                Ok(o) => return (json!({"cross_process": format!("child failed: {:?}", o.status)}), vec![(json!("det-child"), Failure { key: "cross-process|child-crashed".into(), msg: format!("RAYON_NUM_THREADS={threads}: {:?}", o.status) })]),
                Err(e) => return (json!({"cross_process": format!("skipped: {e}")}), vec![]),
            }
        }
        // this process, too
        let own: Vec<String> = works.iter().map(|w| match guard(std::panic::AssertUnwindSafe(|| execute(w))) { Ok(s) => format!("{:016x}", digest(&s)), Err(p) => format!("panic:{}", p.site()) }).collect();
        let mut fails = vec![];
        for (i, w) in works.iter().enumerate() {
            for (threads, r) in &runs {
                if r.get(i) != Some(&own[i]) {
                    let name = match w { Work::Bool { .. } => "Bool", Work::GridUnion { .. } => "GridUnion", Work::Comb { .. } => "Comb", Work::Stitch { .. } => "Stitch", Work::Triangulate { .. } => "Triangulate", Work::Concave { .. } => "Concave", Work::KNearest { .. } => "KNearest", Work::Outliers { .. } => "Outliers", Work::Misc { .. } => "Misc", Work::Prepared { .. } => "Prepared" };
                    fails.push((serde_json::to_value(Case { work: w.clone() }).unwrap(), Failure { key: format!("{name}|differs|fresh-process"), msg: format!("digest {:?} in a fresh process with RAYON_NUM_THREADS={threads:?} vs {} here", r.get(i), own[i]) }));
                    break;
                }
            }
        }
        (json!({"cross_process": {"workloads": works.len(), "large_workloads": n_large, "processes": configs.len(), "rayon_num_threads": configs, "wall_s": t0.elapsed().as_secs_f64()}}), fails)
    }
}

/// child mode: read workloads (JSON lines) from stdin, print one digest per line
pub fn det_child() -> i32 {
    crate::engine::panic::install_hook();
    use std::io::BufRead;
    let stdin = std::io::stdin();
    for line in stdin.lock().lines() {
        let Ok(line) = line else { break };
        if line.trim().is_empty() {
            continue;
        }
        match serde_json::from_str::<Work>(&line) {
            Ok(w) => match guard(std::panic::AssertUnwindSafe(|| execute(&w))) {
                Ok(s) => println!("{:016x}", digest(&s)),
                Err(p) => println!("panic:{}", p.site()),
            },
            Err(e) => println!("unreadable:{e}"),
        }
    }
    0
}
