//! C06 — centroid is the centre of mass of the highest-dimensional part.
use crate::conv::{to_geo, ulp, wkt, Xf};
use crate::engine::{guard, Obs, Property, Tier};
use crate::exact::C;
use crate::gen::{geom_strategy, xf_strategy};
use crate::props::c05::flip_rings;
use crate::refgeom::measure::{hull, twice_area_ring};
use crate::refgeom::{rect_ring, tri_ring, Poly, G};
use geo::{Centroid, Coord};
use proptest::prelude::*;
use serde::{Deserialize, Serialize};
use serde_json::{json, Value};

#[derive(Clone, Debug, Serialize, Deserialize)]
pub struct Case {
    pub g: G,
    pub xf: Xf,
    /// when present the case is an ill-conditioned f64 triangle (C03's triples): `g` is then ignored
    #[serde(default)]
    pub sliver: Option<[(f64, f64); 3]>,
    /// when present the case is line work of horizontal segments whose lengths are k * 2^-e (e in 520..1000: the lengths are
    /// ordinary doubles, their squares are not representable) at ordinary ordinates: (e, [(x0, k, y)]) - `g` is then ignored
    #[serde(default)]
    pub tiny: Option<(i32, Vec<(i64, i64, i64)>)>,
}

pub struct C06;

#[derive(Default, Debug)]
struct Acc {
    // dimension 2: exact moments (6 * area * centroid) and 3 * twice-area
    mx: i128,
    my: i128,
    w: i128,
    // dimension 1
    lx: f64,
    ly: f64,
    lw: f64,
    // dimension 0
    px: i128,
    py: i128,
    pn: i128,
    /// leaf members that contributed to the winning dimension
    members: [usize; 3],
    degenerate_points: usize,
}

fn ring_moment(r: &[C]) -> (i128, i128, i128) {
    // returns (Mx, My, twice area) with the sign normalised to positive area
    let (mut mx, mut my, mut a) = (0i128, 0i128, 0i128);
    for w in r.windows(2) {
        let cr = w[0].0 as i128 * w[1].1 as i128 - w[1].0 as i128 * w[0].1 as i128;
        mx += (w[0].0 + w[1].0) as i128 * cr;
        my += (w[0].1 + w[1].1) as i128 * cr;
        a += cr;
    }
    if a < 0 {
        (-mx, -my, -a)
    } else {
        (mx, my, a)
    }
}

fn add_linestring(acc: &mut Acc, v: &[C]) {
    if v.is_empty() {
        return;
    }
    if v.len() == 1 {
        acc.px += v[0].0 as i128;
        acc.py += v[0].1 as i128;
        acc.pn += 1;
        acc.members[0] += 1;
        return;
    }
    let mut any = false;
    for w in v.windows(2) {
        let (dx, dy) = ((w[1].0 - w[0].0) as f64, (w[1].1 - w[0].1) as f64);
        let len = (dx * dx + dy * dy).sqrt();
        if len > 0.0 {
            acc.lx += (w[0].0 + w[1].0) as f64 * 0.5 * len;
            acc.ly += (w[0].1 + w[1].1) as f64 * 0.5 * len;
            acc.lw += len;
            any = true;
        }
    }
    if any {
        acc.members[1] += 1;
    } else {
        // all coordinates equal: a point (geo counts it once per zero-length segment: the weight
        // is not specified by the property, see `degenerate_points`)
        acc.px += v[0].0 as i128 * (v.len() as i128 - 1);
        acc.py += v[0].1 as i128 * (v.len() as i128 - 1);
        acc.pn += v.len() as i128 - 1;
        acc.members[0] += 1;
        acc.degenerate_points += 1;
    }
}

fn add_poly(acc: &mut Acc, p: &Poly) {
    if p.ext.is_empty() {
        return;
    }
    let (mut mx, mut my, mut a) = ring_moment(&p.ext);
    for h in &p.holes {
        let (hx, hy, ha) = ring_moment(h);
        mx -= hx;
        my -= hy;
        a -= ha;
    }
    if a != 0 {
        acc.mx += mx;
        acc.my += my;
        acc.w += 3 * a;
        acc.members[2] += 1;
    } else {
        // zero area: falls back to its outline
        add_linestring(acc, &p.ext);
    }
}

fn add(acc: &mut Acc, g: &G) {
    match g {
        G::Point(c) => {
            acc.px += c.0 as i128;
            acc.py += c.1 as i128;
            acc.pn += 1;
            acc.members[0] += 1;
        }
        G::MultiPoint(v) => v.iter().for_each(|c| add(acc, &G::Point(*c))),
        // a Line / Rect / Triangle without extent is one location: it is one of "the points" (weight 1; only for line strings
        // and polygons with repeated coordinates is the weight left open, see `degenerate_points`)
        G::Line(a, b) if a == b => add(acc, &G::Point(*a)),
        G::Rect(a, b) if a == b => add(acc, &G::Point(*a)),
        G::Triangle(a, b, c) if a == b && b == c => add(acc, &G::Point(*a)),
        G::Line(a, b) => add_linestring(acc, &[*a, *b]),
        G::LineString(v) => add_linestring(acc, v),
        G::MultiLineString(v) => v.iter().for_each(|l| add_linestring(acc, l)),
        G::Polygon(p) => add_poly(acc, p),
        G::MultiPolygon(v) => v.iter().for_each(|p| add_poly(acc, p)),
        G::Rect(a, b) => add_poly(acc, &Poly::new(rect_ring(*a, *b), vec![])),
        G::Triangle(a, b, c) => add_poly(acc, &Poly::new(tri_ring(*a, *b, *c), vec![])),
        G::Coll(v) => v.iter().for_each(|m| add(acc, m)),
    }
}

fn dims_present(g: &G, out: &mut [bool; 3]) {
    match g {
        G::Coll(v) => v.iter().for_each(|m| dims_present(m, out)),
        _ => {
            let d = g.dim();
            if d >= 0 {
                out[d as usize] = true
            }
        }
    }
}

fn degenerate_strategy() -> impl Strategy<Value = G> {
    let c = || (0i64..9, 0i64..9);
    prop_oneof![
        // flat polygon: all vertices collinear
        // (half of the time with a flat hole on the same line: the outline to fall back to is still the exterior's)
        (c(), -3i64..4, -3i64..4, proptest::collection::vec(0i64..5, 2..5), 0u8..16).prop_map(|(o, dx, dy, ts, hole)| {
            let at = |t: i64| (o.0 + dx * t, o.1 + dy * t);
            let mut r: Vec<C> = ts.iter().map(|t| at(*t)).collect();
            r.insert(0, o);
            r.push(o);
            let (h0, h1) = ((hole >> 1) as i64 & 3, (hole >> 3) as i64 + 1);
            let holes = if hole & 1 == 1 && (dx, dy) != (0, 0) { vec![vec![at(h0), at(h0 + h1), at(h0)]] } else { vec![] };
            G::Polygon(Poly::new(r, holes))
        }),
        // single-point polygon
        c().prop_map(|p| G::Polygon(Poly::new(vec![p, p, p, p], vec![]))),
        c().prop_map(|p| G::Line(p, p)),
        (c(), 0i64..5).prop_map(|(p, w)| G::Rect(p, (p.0 + w, p.1))),
        c().prop_map(|p| G::Rect(p, p)),
        (c(), -3i64..4, -3i64..4, 0i64..4, 0i64..4).prop_map(|(o, dx, dy, s, t)| G::Triangle(o, (o.0 + dx * s, o.1 + dy * s), (o.0 + dx * t, o.1 + dy * t))),
        c().prop_map(|p| G::LineString(vec![p])),
        (c(), 2usize..4).prop_map(|(p, n)| G::LineString(vec![p; n])),
        Just(G::MultiPoint(vec![])),
        Just(G::LineString(vec![])),
        Just(G::Polygon(Poly::new(vec![], vec![]))),
        Just(G::MultiPolygon(vec![])),
        Just(G::Coll(vec![])),
    ]
}

/// degenerate and ordinary members inside a MultiPolygon / MultiLineString (flat members of different vertex
/// counts side by side, with or without a member of real area / length)
fn multi_degenerate_strategy() -> impl Strategy<Value = G> {
    let poly_of = |g: G| -> Vec<Poly> {
        match g {
            G::Polygon(p) => vec![p],
            G::MultiPolygon(v) => v,
            G::Rect(a, b) => vec![Poly::new(rect_ring(a, b), vec![])],
            G::Triangle(a, b, c) => vec![Poly::new(tri_ring(a, b, c), vec![])],
            _ => vec![],
        }
    };
    let line_of = |g: G| -> Vec<Vec<C>> {
        match g {
            G::Line(a, b) => vec![vec![a, b]],
            G::LineString(v) => vec![v],
            G::MultiLineString(v) => v,
            G::Polygon(p) => vec![p.ext],
            _ => vec![],
        }
    };
    prop_oneof![
        proptest::collection::vec(prop_oneof![3 => degenerate_strategy(), 1 => geom_strategy()], 1..5)
            .prop_map(move |v| G::MultiPolygon(v.into_iter().flat_map(poly_of).collect())),
        proptest::collection::vec(prop_oneof![3 => degenerate_strategy(), 1 => geom_strategy()], 1..5)
            .prop_map(move |v| G::MultiLineString(v.into_iter().flat_map(line_of).collect())),
    ]
}

fn member_strategy() -> impl Strategy<Value = G> {
    prop_oneof![5 => geom_strategy(), 2 => degenerate_strategy(), 1 => multi_degenerate_strategy()]
}

impl Property for C06 {
    type Case = Case;
    const ID: &'static str = "C06";
    fn strategy(_tier: Tier) -> BoxedStrategy<Case> {
        let tree = member_strategy().prop_recursive(3, 12, 4, |inner| proptest::collection::vec(inner, 0..4).prop_map(G::Coll));
        let lattice = (prop_oneof![3 => member_strategy(), 4 => tree], any::<u32>(), xf_strategy()).prop_map(|(g, flips, xf)| Case { g: flip_rings(&g, flips), xf, sliver: None, tiny: None });
        // 1 case in 16: triangles whose area sits in the last bits (as Triangle, as Polygon, inside a collection)
        let sliver = crate::props::c03::triple_strategy().prop_map(|t| Case { g: G::MultiPoint(vec![]), xf: Xf::ID, sliver: Some(t), tiny: None });
        let tiny = (520i32..1000, proptest::collection::vec((-8i64..9, 1i64..6, -20i64..21), 1..6))
            .prop_map(|(e, segs)| Case { g: G::MultiPoint(vec![]), xf: Xf::ID, sliver: None, tiny: Some((e, segs)) });
        prop_oneof![30 => lattice.boxed(), 2 => sliver.boxed(), 1 => tiny.boxed()].boxed()
    }
    fn quota(tier: Tier) -> u64 {
        tier.pick(3_000_000, 60_000_000)
    }
    fn rule() -> String {
        "All types: valid geometries from the scene generator (holes of either winding), degenerate ones (flat polygons, \
         single-point polygons, zero-length lines, degenerate Rect/Triangle, one-coordinate line strings), empty ones, and \
         GeometryCollections of them nested to depth 3; exact similarity images. Oracle by definition: exact integer moments for the \
         positive-area members (holes subtracted), else length-weighted segment midpoints (zero-area polygons contribute their \
         outline), else the mean of the points; None iff there is no coordinate. Checked: value within 16 ulp of the coordinate \
         magnitude + 1e-9 of the extent, result inside the exact convex hull (same tolerance), equivariance under the similarity \
         (implied: the oracle is evaluated in the lattice frame and mapped exactly). Non-trivial = members of >= 2 dimensions, or a \
         polygon with holes, or a degenerate member. Sub-cases: slivers (ill-conditioned f64 triangles: finite, within 64 ulp of \
         the hull), flat polygons with a flat hole on the same line, and tiny lengths (horizontal segments of length k * 2^-e, e in \
         520..1000, at ordinary ordinates: the ordinate of the centroid is the length-weighted mean)."
            .into()
    }
    fn assumptions() -> Vec<String> {
        vec!["when only zero-dimensional parts exist and one of them is a degenerate line string / polygon, the weight of that part is not specified by the property: only hull containment is checked there".into()]
    }
    fn must_hit() -> Vec<&'static str> {
        vec!["mixed-dimensions", "has-hole", "degenerate-member", "empty", "dominant-dim:0", "dominant-dim:1", "dominant-dim:2"]
    }
    fn show(c: &Case) -> Value {
        json!({"g": wkt(&c.g), "xf": c.xf})
    }
    fn check(c: &Case, obs: &mut Obs) {
        if let Some((e, segs)) = &c.tiny {
            check_tiny(*e, segs, obs);
            return;
        }
        if let Some(t) = &c.sliver {
            check_sliver(t, obs);
            return;
        }
        let gg = to_geo(&c.g, &c.xf);
        let tn = c.g.type_name();
        obs.label(format!("type:{tn}"));
        let mut acc = Acc::default();
        add(&mut acc, &c.g);
        let mut dp = [false; 3];
        dims_present(&c.g, &mut dp);
        if dp.iter().filter(|x| **x).count() >= 2 {
            obs.label("mixed-dimensions");
            obs.nontrivial();
        }
        let mut polys = vec![];
        let (mut a, mut b) = (vec![], vec![]);
        c.g.parts(&mut a, &mut b, &mut polys);
        if polys.iter().any(|p| !p.holes.is_empty()) && !matches!(c.g, G::Rect(..) | G::Triangle(..)) {
            obs.label("has-hole");
            obs.nontrivial();
        }
        let coords = c.g.coords();
        let want: Option<(f64, f64, usize)> = if acc.w != 0 {
            Some((acc.mx as f64 / acc.w as f64, acc.my as f64 / acc.w as f64, 2))
        } else if acc.lw > 0.0 {
            Some((acc.lx / acc.lw, acc.ly / acc.lw, 1))
        } else if acc.pn > 0 {
            Some((acc.px as f64 / acc.pn as f64, acc.py as f64 / acc.pn as f64, 0))
        } else {
            None
        };
        let degenerate = (acc.w == 0 && !polys.is_empty() && polys.iter().any(|p| !p.ext.is_empty())) || acc.degenerate_points > 0
            || polys.iter().any(|p| !p.ext.is_empty() && twice_area_ring(&p.ext) == 0);
        if degenerate {
            obs.label("degenerate-member");
            obs.nontrivial();
        }
        let ctx = || format!("g={} xf={:?}", wkt(&c.g), c.xf);
        let got = match guard(std::panic::AssertUnwindSafe(|| gg.centroid())) {
            Ok(v) => v,
            Err(p) => {
                obs.fail(format!("centroid:{tn}|panic|{}", p.site()), format!("{} {}", p, ctx()));
                return;
            }
        };
        match (got, want) {
            (None, None) => {
                obs.cmp();
                obs.label("empty");
                obs.expect(coords.is_empty(), &format!("centroid:{tn}|oracle-none-with-coords"), || ctx());
            }
            (Some(p), None) => obs.fail(format!("centroid:{tn}|some-for-empty"), format!("got {:?}; {}", p, ctx())),
            (None, Some(w)) => obs.fail(format!("centroid:{tn}|none-for-nonempty"), format!("want {:?}; {}", w, ctx())),
            (Some(p), Some((wx, wy, dim))) => {
                obs.label(format!("dominant-dim:{dim}"));
                let maxabs = c.xf.max_abs(&c.g);
                let s = c.xf.scale();
                let ext = coords.iter().map(|q| q.0.abs().max(q.1.abs())).max().unwrap_or(1) as f64 * s;
                let tol = 16.0 * ulp(maxabs) + 1e-9 * ext.max(s);
                let wt = c.xf.apply_f(wx, wy);
                let ambiguous = dim == 0 && acc.degenerate_points > 0 && acc.members[0] > 1;
                if !ambiguous {
                    obs.expect(
                        (p.x() - wt.x).abs() <= tol && (p.y() - wt.y).abs() <= tol,
                        &format!("centroid:{tn}|value|dim{dim}"),
                        || format!("got ({}, {}) want ({}, {}) tol {tol}; local want ({wx}, {wy}); {}", p.x(), p.y(), wt.x, wt.y, ctx()),
                    );
                } else {
                    obs.label("skipped-value:ambiguous-point-weights");
                }
                // hull containment, in the lattice frame
                let (lx, ly) = c.xf.invert_f(Coord { x: p.x(), y: p.y() });
                let tl = tol / s + 1e-9;
                let h = hull(&coords);
                let inside = match h.len() {
                    0 => false,
                    1 => (lx - h[0].0 as f64).abs() <= tl && (ly - h[0].1 as f64).abs() <= tl,
                    2 => {
                        let (ax, ay, bx, by) = (h[0].0 as f64, h[0].1 as f64, h[1].0 as f64, h[1].1 as f64);
                        let (dx, dy) = (bx - ax, by - ay);
                        let t = (((lx - ax) * dx + (ly - ay) * dy) / (dx * dx + dy * dy)).clamp(0.0, 1.0);
                        ((lx - ax - t * dx).powi(2) + (ly - ay - t * dy).powi(2)).sqrt() <= tl
                    }
                    n => (0..n).all(|i| {
                        let (a, b) = (h[i], h[(i + 1) % n]);
                        let (dx, dy) = ((b.0 - a.0) as f64, (b.1 - a.1) as f64);
                        let cr = dx * (ly - a.1 as f64) - dy * (lx - a.0 as f64);
                        cr >= -tl * (dx * dx + dy * dy).sqrt()
                    }),
                };
                obs.expect(inside, &format!("centroid:{tn}|outside-hull"), || format!("got ({}, {}) = local ({lx}, {ly}); hull {:?}; {}", p.x(), p.y(), h, ctx()));
            }
        }
    }
}


/// The centroid of a (possibly very thin, possibly exactly flat) triangle is a finite point within rounding of the triangle:
/// for a triangle with area it is the vertex mean, in every case it lies in the hull. Tolerance: 64 ulp of the largest ordinate.
/// Horizontal segments of length k * 2^-e at ordinary ordinates, as MultiLineString, as a collection of Lines and LineStrings
/// (with a Point member, which has no weight next to line work): the centroid is the length-weighted mean of the midpoints,
/// x = 2^-e * sum(k (x0 + k/2)) / sum(k), y = sum(k y) / sum(k) - lengths enter linearly, their squares never.
fn check_tiny(e: i32, segs: &[(i64, i64, i64)], obs: &mut Obs) {
    use geo::{Geometry, GeometryCollection, Line, LineString, MultiLineString, Point};
    if !(520..1000).contains(&e) || segs.is_empty() || segs.len() > 8 || segs.iter().any(|s| s.1 < 1 || s.1 > 8 || s.0.abs() > 64 || s.2.abs() > 1000) {
        obs.label("skipped:out-of-domain");
        return;
    }
    obs.label("sub:tiny-lengths");
    obs.nontrivial();
    let u = 2f64.powi(-e);
    let sk: i64 = segs.iter().map(|s| s.1).sum();
    // 2 * sum(k (x0 + k/2)) = sum(k (2 x0 + k))
    let sx2: i64 = segs.iter().map(|s| s.1 * (2 * s.0 + s.1)).sum();
    let sy: i64 = segs.iter().map(|s| s.1 * s.2).sum();
    let want = (sx2 as f64 / (2.0 * sk as f64) * u, sy as f64 / sk as f64);
    let co = |x: i64, y: i64| Coord { x: x as f64 * u, y: y as f64 };
    let lines: Vec<Line<f64>> = segs.iter().map(|s| Line::new(co(s.0, s.2), co(s.0 + s.1, s.2))).collect();
    let mls = MultiLineString::new(lines.iter().map(|l| LineString::from(vec![l.start, l.end])).collect());
    let gc = GeometryCollection::new_from(
        lines.iter().enumerate().map(|(i, l)| if i % 2 == 0 { Geometry::Line(*l) } else { Geometry::LineString(LineString::from(vec![l.start, l.end])) }).chain(std::iter::once(Geometry::Point(Point::new(1.0e6, -1.0e6)))).collect(),
    );
    let ctx = || format!("e={e} segments (x0, k, y)={:?}", segs);
    let runs: Vec<(&str, Result<Option<Point<f64>>, crate::engine::PanicInfo>)> = vec![
        ("centroid:MultiLineString", guard(std::panic::AssertUnwindSafe(|| mls.centroid()))),
        ("centroid:GeometryCollection", guard(std::panic::AssertUnwindSafe(|| gc.centroid()))),
        ("centroid:Geometry[MultiLineString]", guard(std::panic::AssertUnwindSafe(|| Geometry::MultiLineString(mls.clone()).centroid()))),
    ];
    for (name, r) in runs {
        match r {
            Ok(Some(p)) => {
                obs.cmp();
                // the ordinate (ordinary magnitude, weights k * 2^-e) is decisive; the abscissa is itself of the order 2^-e, its
                // products with the lengths underflow (outside the domain, DESIGN section 8): it only has to be finite
                let (xlo, xhi) = (segs.iter().map(|s| s.0).min().unwrap() as f64 * u, segs.iter().map(|s| s.0 + s.1).max().unwrap() as f64 * u);
                let ok = p.x().is_finite() && (p.y() - want.1).abs() <= 1e-12 * want.1.abs().max(1.0);
                obs.expect(ok, &format!("{name}|tiny-lengths|value"), || format!("got ({:e}, {}) want (~{:e} within [{:e}, {:e}], {}); {}", p.x(), p.y(), want.0, xlo, xhi, want.1, ctx()));
            }
            Ok(None) => obs.fail(format!("{name}|tiny-lengths|none-for-nonempty"), ctx()),
            Err(pn) => obs.fail(format!("{name}|tiny-lengths|panic|{}", pn.site()), format!("{} {}", pn, ctx())),
        }
    }
}

fn check_sliver(t: &[(f64, f64); 3], obs: &mut Obs) {
    use geo::{Geometry, GeometryCollection, InteriorPoint, LineString, Polygon, Triangle};
    obs.label("sub:sliver");
    let in_range = |v: f64| v == 0.0 || (v.is_finite() && v.abs() >= 2f64.powi(-400) && v.abs() <= 2f64.powi(400));
    if !t.iter().all(|p| in_range(p.0) && in_range(p.1)) {
        obs.label("skipped:out-of-domain");
        return;
    }
    let o = crate::exact::big::orient_f64(t[0], t[1], t[2]);
    let naive = (t[1].0 - t[0].0) * (t[2].1 - t[0].1) - (t[1].1 - t[0].1) * (t[2].0 - t[0].0);
    if o != 0 && naive == 0.0 {
        obs.label("sliver:area-rounds-to-zero");
        obs.nontrivial();
    }
    let co = |p: (f64, f64)| Coord { x: p.0, y: p.1 };
    let maxabs = t.iter().fold(0.0f64, |m, p| m.max(p.0.abs()).max(p.1.abs()));
    let tol = 64.0 * ulp(maxabs);
    let seg = |p: (f64, f64), a: (f64, f64), b: (f64, f64)| -> f64 {
        let (dx, dy) = (b.0 - a.0, b.1 - a.1);
        let l2 = dx * dx + dy * dy;
        let u = if l2 == 0.0 { 0.0 } else { (((p.0 - a.0) * dx + (p.1 - a.1) * dy) / l2).clamp(0.0, 1.0) };
        (p.0 - a.0 - u * dx).hypot(p.1 - a.1 - u * dy)
    };
    // distance from q to the (closed) triangle: 0 when exactly inside, else to the nearest side
    let dist_to_tri = |q: (f64, f64)| -> f64 {
        let s: Vec<i32> = (0..3).map(|i| crate::exact::big::orient_f64(t[i], t[(i + 1) % 3], q)).collect();
        if o != 0 && s.iter().all(|v| *v == 0 || (*v > 0) == (o > 0)) {
            return 0.0;
        }
        (0..3).map(|i| seg(q, t[i], t[(i + 1) % 3])).fold(f64::INFINITY, f64::min)
    };
    let tri = Triangle(co(t[0]), co(t[1]), co(t[2]));
    let poly = Polygon::new(LineString::new(vec![co(t[0]), co(t[1]), co(t[2]), co(t[0])]), vec![]);
    let gc = GeometryCollection::new_from(vec![Geometry::Triangle(tri)]);
    let ctx = || format!("{:?} bits {:?} exact orientation {o}", t, t.map(|p| (p.0.to_bits(), p.1.to_bits())));
    let results: Vec<(&str, Result<Option<(f64, f64)>, crate::engine::PanicInfo>)> = vec![
        ("centroid:Triangle", guard(std::panic::AssertUnwindSafe(|| { let p = tri.centroid(); Some((p.x(), p.y())) }))),
        ("centroid:Polygon", guard(std::panic::AssertUnwindSafe(|| poly.centroid().map(|p| (p.x(), p.y()))))),
        ("centroid:GeometryCollection[Triangle]", guard(std::panic::AssertUnwindSafe(|| gc.centroid().map(|p| (p.x(), p.y()))))),
        ("interior_point:Triangle", guard(std::panic::AssertUnwindSafe(|| { let p = tri.interior_point(); Some((p.x(), p.y())) }))),
    ];
    for (name, r) in results {
        match r {
            Ok(Some(q)) => {
                obs.cmp();
                obs.expect(q.0.is_finite() && q.1.is_finite(), &format!("{name}|sliver|not-finite"), || format!("got {:?}; {}", q, ctx()));
                if q.0.is_finite() && q.1.is_finite() {
                    let d = dist_to_tri(q);
                    obs.expect(d <= tol, &format!("{name}|sliver|outside-the-hull"), || format!("got {:?}, {d} from the triangle (tol {tol}); {}", q, ctx()));
                }
            }
            Ok(None) => obs.fail(format!("{name}|sliver|none-for-nonempty"), ctx()),
            Err(p) => obs.fail(format!("{name}|sliver|panic|{}", p.site()), format!("{} {}", p, ctx())),
        }
    }
}
