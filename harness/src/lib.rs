pub mod conv;
pub mod engine;
pub mod exact;
pub mod fuzz;
pub mod gen;
pub mod props;
pub mod refgeom;
