//! libFuzzer bridge (engine B): bytes -> `arbitrary::Unstructured` -> the same raw
//! descriptions the proptest strategies use -> the SAME Case types -> the SAME check
//! functions. Known findings are tolerated through the same matcher; an unknown failure
//! is written as an ordinary JSON replay file and the process aborts (a libFuzzer crash).
//!
//! (A first attempt drove the proptest strategies directly through proptest's
//! `PassThrough` RNG; rand's rejection samplers do not terminate on the all-zero stream
//! that RNG yields once a forked window is exhausted, so it was replaced by hand-written
//! decoders.)
use crate::engine::{load_known, match_known, Failure, KnownFinding, Obs, Property};
use crate::gen::bytes as gb;
use crate::props::*;
use arbitrary::Unstructured;
use std::path::PathBuf;
use std::sync::OnceLock;

fn root() -> PathBuf {
    PathBuf::from(std::env::var("VERIF_ROOT").unwrap_or_else(|_| "/verif".into()))
}
fn known() -> &'static Vec<KnownFinding> {
    static K: OnceLock<Vec<KnownFinding>> = OnceLock::new();
    K.get_or_init(|| load_known(&root()))
}

pub trait FuzzCase: Property {
    fn decode(u: &mut Unstructured) -> arbitrary::Result<Option<Self::Case>>;
}

impl FuzzCase for c01::C01 {
    fn decode(u: &mut Unstructured) -> arbitrary::Result<Option<c01::Case>> {
        // one input in eight: two segments from raw doubles (decided by exact predicates on the doubles)
        if u.ratio(1u8, 8u8)? {
            let mut s = [(0.0f64, 0.0f64); 4];
            for q in s.iter_mut() {
                *q = (f64::from_bits(u.arbitrary()?), f64::from_bits(u.arbitrary()?));
            }
            let ok = s.iter().all(|q| q.0.is_finite() && q.1.is_finite() && q.0.abs() <= 1e100 && q.1.abs() <= 1e100 && (q.0 == 0.0 || q.0.abs() >= 1e-100) && (q.1 == 0.0 || q.1.abs() >= 1e-100));
            return Ok(if ok { Some(c01::Case { a: crate::refgeom::G::MultiPoint(vec![]), b: crate::refgeom::G::MultiPoint(vec![]), xf: crate::conv::Xf::ID, vsel: 0, seg: Some(s), trusted: true }) } else { None });
        }
        let p = gb::pair(u)?;
        let (xf, vsel) = (gb::xf(u)?, u.arbitrary()?);
        Ok(p.map(|p| c01::Case { a: p.a, b: p.b, xf, vsel, seg: None, trusted: true }))
    }
}
impl FuzzCase for c02::C02 {
    fn decode(u: &mut Unstructured) -> arbitrary::Result<Option<c02::Case>> {
        let p = gb::pair(u)?;
        let xf = gb::xf(u)?;
        Ok(p.map(|p| c02::Case { a: p.a, b: p.b, xf, trusted: true }))
    }
}
impl FuzzCase for c07::C07 {
    fn decode(u: &mut Unstructured) -> arbitrary::Result<Option<c07::Case>> {
        let p = gb::pair(u)?;
        let (xf, vsel) = (gb::xf(u)?, u.arbitrary()?);
        Ok(p.filter(|p| !p.a.is_empty() && !p.b.is_empty()).map(|p| c07::Case { a: p.a, b: p.b, xf, vsel, near: None, trusted: true }))
    }
}
impl FuzzCase for c17::C17 {
    fn decode(u: &mut Unstructured) -> arbitrary::Result<Option<c17::Case>> {
        let s = gb::scene(u, 5)?;
        let n = u.int_in_range(1..=10usize)?;
        let mut steps = vec![];
        for _ in 0..n {
            steps.push(c17::Step { partner: u.arbitrary()?, mode: u.int_in_range(0..=6u8)?, reps: u.int_in_range(0..=2u8)? });
        }
        let (xf, concrete) = (gb::xf(u)?, u.arbitrary()?);
        Ok(s.map(|s| c17::Case { p: s.a, partners: s.partners, steps, xf, concrete, mix: None, trusted: true }))
    }
}
impl FuzzCase for c12::C12 {
    fn decode(u: &mut Unstructured) -> arbitrary::Result<Option<c12::Case>> {
        let s = gb::scene(u, 2)?;
        let n = u.int_in_range(1..=6usize)?;
        let mut queries = vec![];
        for _ in 0..n {
            queries.push((u.int_in_range(-20..=60i64)?, u.int_in_range(-20..=60i64)?));
        }
        let xf = gb::xf(u)?;
        Ok(s.map(|s| {
            // half of the queries are features of the scene
            let pool: Vec<_> = s.a.coords().into_iter().chain(s.partners.iter().flat_map(|p| p.coords())).collect();
            let queries = queries.iter().enumerate().map(|(i, q)| if i % 2 == 0 && !pool.is_empty() { pool[(q.0.unsigned_abs() as usize) % pool.len()] } else { *q }).collect();
            c12::Case { g: s.a, queries, xf, noise: 0, mixed: false, sliver: None, trusted: true }
        }))
    }
}
impl FuzzCase for c04::C04 {
    fn decode(u: &mut Unstructured) -> arbitrary::Result<Option<c04::Case>> {
        let s = gb::areal_scene(u)?;
        let (xf, flips, dup) = (gb::xf(u)?, u.arbitrary()?, u.int_in_range(0..=7u8)?);
        Ok(s.map(|s| c04::Case { a: s.a, b: s.b, line: s.line, xf, flips, dup, trusted: true }))
    }
}
impl FuzzCase for c10::C10 {
    fn decode(u: &mut Unstructured) -> arbitrary::Result<Option<c10::Case>> {
        let s = gb::areal_scene(u)?;
        let (xf, second) = (gb::xf(u)?, u.arbitrary::<bool>()?);
        Ok(s.map(|s| c10::Case { g: if second { s.b } else { s.a }, xf, trusted: true }).filter(|c| !c.g.is_empty()))
    }
}
impl FuzzCase for c14::C14 {
    fn decode(u: &mut Unstructured) -> arbitrary::Result<Option<c14::Case>> {
        let s = gb::areal_scene(u)?;
        let (op, sel, xf) = (u.int_in_range(0..=17u8)?, u.arbitrary::<u64>()?, gb::xf(u)?);
        let nonfinite = if u.int_in_range(0..=11u8)? == 0 { Some((u.arbitrary()?, u.arbitrary()?, u.arbitrary()?, u.int_in_range(0..=2u8)?, u.int_in_range(0..=1u8)?)) } else { None };
        Ok(s.map(|s| c14::Case { g: c14::mutate_pub(&s.a, op, sel), nonfinite, xf, op, small: None }))
    }
}
impl FuzzCase for c03::C03 {
    fn decode(u: &mut Unstructured) -> arbitrary::Result<Option<c03::Case>> {
        let mut p = || -> arbitrary::Result<(f64, f64)> { Ok((gb::f64_in_range(u)?, gb::f64_in_range(u)?)) };
        let (a, b) = (p()?, p()?);
        // third point: on / near the line through a and b, or free
        let t = u.int_in_range(-8..=24i32)? as f64 / 16.0;
        let near = (a.0 + (b.0 - a.0) * t, a.1 + (b.1 - a.1) * t);
        let free = (gb::f64_in_range(u)?, gb::f64_in_range(u)?);
        let c = if u.arbitrary::<bool>()? { near } else { free };
        let ok = |v: f64| v == 0.0 || (v.is_finite() && v.abs() >= 2f64.powi(-300) && v.abs() <= 2f64.powi(300));
        if ![a, b, c, free].iter().all(|q| ok(q.0) && ok(q.1)) {
            return Ok(None);
        }
        Ok(Some(if u.arbitrary::<bool>()? { c03::Case::Triple([a, b, c]) } else { c03::Case::Segs([a, b, c, free]) }))
    }
}
impl FuzzCase for c11::C11 {
    fn decode(u: &mut Unstructured) -> arbitrary::Result<Option<c11::Case>> {
        let mut p = || -> arbitrary::Result<(f64, f64)> { Ok((gb::f64_in_range(u)?, gb::f64_in_range(u)?)) };
        let (a, b) = (p()?, p()?);
        let mut on = |u: &mut Unstructured| -> arbitrary::Result<(f64, f64)> {
            let t = u.int_in_range(-8..=24i32)? as f64 / 16.0;
            Ok((a.0 + (b.0 - a.0) * t, a.1 + (b.1 - a.1) * t))
        };
        let c = if u.arbitrary::<bool>()? { on(u)? } else { (gb::f64_in_range(u)?, gb::f64_in_range(u)?) };
        let d = if u.arbitrary::<bool>()? { on(u)? } else { (gb::f64_in_range(u)?, gb::f64_in_range(u)?) };
        Ok(Some(c11::Case { pts: [a, b, c, d] }))
    }
}
impl FuzzCase for c09::C09 {
    fn decode(u: &mut Unstructured) -> arbitrary::Result<Option<c09::Case>> {
        let kind = u.int_in_range(0..=3u8)?;
        let nparts = u.int_in_range(1..=3usize)?;
        let mut parts = vec![];
        for _ in 0..nparts {
            let n = u.int_in_range(0..=24usize)?;
            let mut v = vec![];
            let (mut x, mut y) = (u.int_in_range(0..=8i32)?, u.int_in_range(0..=8i32)?);
            for _ in 0..n {
                v.push((x as f64, y as f64));
                x += u.int_in_range(-2..=2i32)?;
                y += u.int_in_range(-2..=2i32)?;
            }
            parts.push(v);
        }
        let eps = match u.int_in_range(0..=5u8)? {
            0 => -1.0,
            1 => 0.0,
            2 => u.int_in_range(0..=64u32)? as f64 / 8.0,
            3 => (u.int_in_range(0..=50u32)? as f64).sqrt(),
            4 => u.int_in_range(0..=40u32)? as f64 * 0.5,
            _ => 1e30,
        };
        Ok(Some(c09::Case { kind, parts, eps }))
    }
}

/// decode and check; Err carries the case and its unknown failures
pub fn one<P: FuzzCase>(data: &[u8]) -> Result<bool, (P::Case, Vec<Failure>)> {
    crate::engine::panic::install_hook();
    let mut u = Unstructured::new(data);
    let case = match P::decode(&mut u) {
        Ok(Some(c)) => c,
        _ => return Ok(false),
    };
    let r = crate::engine::guard(std::panic::AssertUnwindSafe(|| {
        let mut o = Obs::new();
        P::check(&case, &mut o);
        o
    }));
    let obs = match r {
        Ok(o) => o,
        Err(p) => {
            let mut o = Obs::new();
            o.fail(format!("unwrapped-panic|{}", p.site()), format!("{}", p));
            o
        }
    };
    let unknown: Vec<Failure> = obs.failures.into_iter().filter(|f| match_known(known(), P::ID, &f.key).is_none()).collect();
    if unknown.is_empty() {
        Ok(true)
    } else {
        Err((case, unknown))
    }
}

pub fn run<P: FuzzCase>(data: &[u8]) {
    if let Err((case, fails)) = one::<P>(data) {
        let path = crate::engine::write_replay_pub::<P>(&root(), &case, &fails, "libfuzzer");
        eprintln!("VIOLATION property={} replay={}", P::ID, path.display());
        for f in &fails {
            eprintln!("  [{}] {}", f.key, f.msg);
        }
        std::process::abort();
    }
}

pub const FUZZ_IDS: [&str; 12] = ["C01", "C02", "C03", "C04", "C07", "C09", "C10", "C11", "C12", "C14", "C17", "C18x"];

/// dispatch on the property id (GEOVERIF_FUZZ_ID): one fuzz binary serves every fuzzed property
pub fn run_by_id(id: &str, data: &[u8]) {
    match id {
        "C01" => run::<c01::C01>(data),
        "C02" => run::<c02::C02>(data),
        "C03" => run::<c03::C03>(data),
        "C04" => run::<c04::C04>(data),
        "C07" => run::<c07::C07>(data),
        "C09" => run::<c09::C09>(data),
        "C10" => run::<c10::C10>(data),
        "C11" => run::<c11::C11>(data),
        "C12" => run::<c12::C12>(data),
        "C14" => run::<c14::C14>(data),
        "C17" => run::<c17::C17>(data),
        _ => panic!("no fuzz target for {id}"),
    }
}
