#!/usr/bin/env bash
# usage: tools/seeded_detect.sh <patch> <ID> [<ID>...]  — apply a seeded change to /repo, run the quick checks, undo it
set -u
P="$1"; shift
cd /verif
git -C /repo apply --check "$P" || { echo "PATCH DOES NOT APPLY: $P"; exit 3; }
git -C /repo apply "$P"
for id in "$@"; do
  # the evidence file describes the unchanged tree: keep it aside while the patched tree is checked
  cp -f "evidence/$id.json" "/tmp/evidence-$id.keep" 2>/dev/null
  out=$(./check "$id" quick 2>&1); rc=$?
  [ -f "/tmp/evidence-$id.keep" ] && mv -f "/tmp/evidence-$id.keep" "evidence/$id.json"
  echo "== $id rc=$rc: $(echo "$out" | grep -E "^VIOLATION|quick:" | tail -2 | tr '\n' ' ' | cut -c1-300)"
  echo "$out" | grep -E "^\s+\[" | head -3 | cut -c1-400
done
git -C /repo checkout -- .
git -C /repo clean -fdq -- geo geo-types jts-test-runner   # patches may add files
git -C /repo status --short | head -3
