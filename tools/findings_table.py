#!/usr/bin/env python3
"""Rewrites the tables of DESIGN.md §5.1 (repaired) and §5.2 (recorded) from /verif/known_findings.json."""
import json, re
d = json.load(open('/verif/known_findings.json'))['findings']
fixed = [x for x in d if x['status'] == 'fixed']
known = [x for x in d if x['status'] == 'known']
def esc(s): return s.replace('|', '/').replace('\n', ' ')
rows = []
for x in fixed:
    what = re.sub(r'^fixed: property=\S+ \S+ ', '', x['what'])
    rows.append(f"| {x['property']} | `{x['commit']}` | {esc(what)} | `{x.get('witness','')}` |")
t1 = "| property | commit | what failed | witness |\n|---|---|---|---|\n" + "\n".join(rows)
rows = []
for x in known:
    keys = ", ".join("`" + k.replace('|', '\\|') + "`" for k in x['keys'][:3]) + (f" (+{len(x['keys'])-3} more)" if len(x['keys']) > 3 else "")
    rows.append(f"| {x['property']} | `{x['id']}` | {keys} | {esc(x['what'])} | `{x.get('witness','')}` |")
t2 = "| property | finding id | keys that are excluded | what fails, and why it is not repaired | witness |\n|---|---|---|---|---|\n" + "\n".join(rows)
p = '/verif/DESIGN.md'
s = open(p).read()
for tag, t in (('FIXED-TABLE', t1), ('KNOWN-TABLE', t2)):
    a, b = f'<!-- {tag}-BEGIN -->', f'<!-- {tag}-END -->'
    s = s[:s.index(a) + len(a)] + "\n" + t + "\n" + s[s.index(b):]
s = re.sub(r'### 5\.1 Repaired \(\d+ `fix:` commits\)', f'### 5.1 Repaired ({len(fixed)} `fix:` commits)', s)
s = re.sub(r'### 5\.2 Recorded, not repaired \(\d+\)', f'### 5.2 Recorded, not repaired ({len(known)})', s)
s = re.sub(r'/verif/known_findings.json       \d+ `fixed` entries \(one `fix:` commit each\) \+ \d+ `known` entr(y|ies)', f'/verif/known_findings.json       {len(fixed)} `fixed` entries (one `fix:` commit each) + {len(known)} `known` entries', s)
open(p, 'w').write(s)
print(len(fixed), 'fixed', len(known), 'known')
