#!/usr/bin/env python3
"""tools/seeded_record.py <ID> <n> <caught_by|MISSED> <detail> [<srcdir> <src_n>]  -- copy a confirmed seeded change into /verif/seeded/<ID>-<n>/
(second-round changes live in /tmp/seed-out/r2-<ID>/ as patch{1,2}.diff and are recorded as <ID>-3, <ID>-4)"""
import json, os, re, shutil, sys, glob
ID, n, caught, detail = sys.argv[1], sys.argv[2], sys.argv[3], sys.argv[4]
src = sys.argv[5] if len(sys.argv) > 5 else f"/tmp/seed-out/{ID}"
sn = sys.argv[6] if len(sys.argv) > 6 else n
tag = f"{os.path.basename(src)} {sn}" if len(sys.argv) > 5 else f"{ID} {n}"
dst = f"/verif/seeded/{ID}-{n}"
os.makedirs(dst, exist_ok=True)
shutil.copy(f"{src}/patch{sn}.diff", f"{dst}/patch.diff")
shutil.copy(f"{src}/demo{sn}.rs", f"{dst}/demo.rs")
if os.path.exists(f"{src}/patch{sn}.orig.diff"):
    shutil.copy(f"{src}/patch{sn}.orig.diff", f"{dst}/patch.as-written.diff")
meta = json.load(open(f"{src}/meta{sn}.json"))
ver = None
for log in sorted(glob.glob("/tmp/seed-out/verify*.log")):
    txt = open(log).read()
    m = re.search(rf"#### {re.escape(tag)}\n(demo WITHOUT change:[^\n]*)\n(demo WITH change:[^\n]*)\n(suite WITH change:[^\n]*)", txt)
    if m:
        ver = [m.group(1).strip(), m.group(2).strip(), m.group(3).strip()]
out = {
    "property": ID,
    "summary": meta.get("summary"),
    "needs_to_manifest": meta.get("needs"),
    "files": meta.get("files"),
    "author": "independent sub-agent given only the property text and a scratch worktree (nothing from /verif)",
    "author_report": {"existing_tests": meta.get("existing_tests"), "demo": meta.get("demo")},
    "confirmed_by_me": {
        "how": "tools/seeded_verify.sh in the scratch worktree /tmp/wt-verify: demo (geo/tests/seeded_demo.rs, `cargo test -p geo --offline --test seeded_demo`) without and with the change; `cargo nextest run -p geo -p geo-types --offline --no-fail-fast` with the change (the three geodesic tests that fail on this platform regardless are filtered out)",
        "result": ver,
    },
    "detection": {"how": f"git -C /repo apply seeded/{ID}-{n}/patch.diff; ./check <id> quick; git -C /repo checkout -- .", "caught_by": caught, "detail": detail},
}
json.dump(out, open(f"{dst}/meta.json", "w"), indent=1)
print(dst, "verified" if ver else "NOT YET VERIFIED")
