#!/usr/bin/env bash
# usage: tools/seeded_verify.sh <dir-with patchN.diff demoN.rs> <N> — confirm a seeded change in the scratch worktree /tmp/wt-verify:
#   demo fails with the change, passes without; the repository's own suite still passes with the change.
set -u
D="$1"; N="$2"; W=/tmp/wt-verify
cd $W && git checkout -q -- . && git clean -fdq -e target
export CARGO_NET_OFFLINE=true
mkdir -p geo/tests && cp "$D/demo$N.rs" geo/tests/seeded_demo.rs
without=$(cargo test -p geo --offline --test seeded_demo 2>&1 | grep -E "^test result" | tail -1)
git apply "$D/patch$N.diff" || { echo "APPLY FAILED"; exit 3; }
with=$(cargo test -p geo --offline --test seeded_demo 2>&1 | grep -E "^test result" | tail -1)
rm geo/tests/seeded_demo.rs
suite=$(cargo nextest run -p geo -p geo-types --offline --no-fail-fast 2>&1 | grep -E "^ +Summary|^ +FAIL " | grep -v "points_along_line_with\|test_non_standard_geoid" | sed -E 's/\[[^]]*\]//' | sort -u | tr '\n' ';' | tr -s ' ')
git checkout -q -- . && git clean -fdq -e target
echo "demo WITHOUT change: $without"
echo "demo WITH change:    $with"
echo "suite WITH change:   $suite"
