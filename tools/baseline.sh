#!/usr/bin/env bash
# Runs the repository's own test suite (hooks/guard off) and compares with /root/.vp/BASELINE.json stable_pass.
cd /repo && CARGO_NET_OFFLINE=true cargo nextest run --workspace --no-fail-fast --test-threads 8 --offline > /tmp/baseline.log 2>&1
python3 - <<'PY'
import json,re
base=set(json.load(open('/root/.vp/BASELINE.json'))['stable_pass'])
passed=set(); failed=set()
for l in open('/tmp/baseline.log'):
    m=re.match(r'\s+(PASS|FAIL)\s+\[[^\]]*\]\s+(?:\(\s*\d+/\d+\)\s+)?(\S+)\s+(\S+)',l)
    if m:
        name=m.group(2)+'::'+m.group(3)
        (passed if m.group(1)=='PASS' else failed).add(name)
missing=sorted(base-passed)
print('baseline stable:',len(base),'passed now:',len(passed),'failed now:',len(failed))
print('stable tests not passing now:',len(missing))
for m in missing[:40]: print('  ',m)
print('failed:',sorted(failed)[:20])
PY
