#!/usr/bin/env python3
"""Rewrites the seeded-change table of DESIGN.md (§6) from /verif/seeded/*/meta.json."""
import json, glob, re
rows = []
for d in sorted(glob.glob('/verif/seeded/*/meta.json')):
    m = json.load(open(d))
    name = d.split('/')[-2]
    s = (m.get('summary') or '').replace('|', '/').replace('\n', ' ')
    s = s[:230] + ('...' if len(s) > 230 else '')
    det = m['detection']
    rows.append(f"| `{name}` | {s} | {det['caught_by']} | {det['detail'].replace('|','/')} |")
table = "| seeded change | what it does | caught by | detail |\n|---|---|---|---|\n" + "\n".join(rows)
p = '/verif/DESIGN.md'
s = open(p).read()
a, b = '<!-- SEEDED-TABLE-BEGIN -->', '<!-- SEEDED-TABLE-END -->'
if a in s:
    s = s[:s.index(a) + len(a)] + "\n" + table + "\n" + s[s.index(b):]
    open(p, 'w').write(s)
print(len(rows), "rows")
