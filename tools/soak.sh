#!/usr/bin/env bash
# usage: tools/soak.sh <tier> <seed> [ID...]  -- run checks against the scratch copy /tmp/wt-soak (VERIF_REPO), one log line each
tier="$1"; seed="$2"; shift 2
ids="${*:-C01 C02 C03 C04 C05 C06 C07 C08 C09 C10 C11 C12 C13 C14 C15 C16 C17 C18 C19 C20}"
cd /verif
for id in $ids; do
  out=$(VERIF_REPO=/tmp/wt-soak VERIF_SEED=$seed ./check $id $tier 2>&1); rc=$?
  echo "seed=$seed $id $tier rc=$rc $(echo "$out" | grep -E "^VIOLATION|INCONCLUSIVE|$tier:" | tr '\n' ' ' | cut -c1-400)"
done
