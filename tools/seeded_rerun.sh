#!/usr/bin/env bash
# usage: tools/seeded_rerun.sh [<name>...]   -- re-apply every recorded seeded change (seeded/<ID>-<n>/patch.diff) to /repo, run the
# quick check(s) that are recorded as catching it, undo it; one line per change in seeded/RERUN.log (evidence files are kept aside).
# With SEEDED_WT=<scratch worktree of /repo at HEAD> the change is applied there instead and the checks run against it through
# the VERIF_REPO development aid (so /repo stays free for other work while the two-hour rerun is going).
set -u
cd /verif
REPO="${SEEDED_WT:-/repo}"
[ "$REPO" != "/repo" ] && export VERIF_REPO="$REPO"
names="${*:-$(ls seeded | grep -E '^C[0-9]+-[0-9]+$' | sort -V)}"
: > seeded/RERUN.log.new
for n in $names; do
  d="$PWD/seeded/$n"
  ids=$(python3 -c "import json,re;m=json.load(open('$d/meta.json'));print(' '.join(re.findall(r'C\d\d', m['detection']['caught_by'])) or m['property'])")
  if ! git -C "$REPO" apply --check "$d/patch.diff" 2>/dev/null; then echo "$n APPLY-FAILED" | tee -a seeded/RERUN.log.new; continue; fi
  git -C "$REPO" apply "$d/patch.diff"
  res=""
  for id in $ids; do
    cp -f "evidence/$id.json" "/tmp/evidence-$id.keep" 2>/dev/null
    out=$(./check "$id" quick 2>&1); rc=$?
    [ -f "/tmp/evidence-$id.keep" ] && mv -f "/tmp/evidence-$id.keep" "evidence/$id.json"
    cases=$(echo "$out" | grep -E "quick:" | sed -E 's/.*quick: ([0-9]+) cases.*/\1/')
    res="$res $id:rc=$rc:cases=$cases"
    [ "$rc" -eq 1 ] && break
  done
  git -C "$REPO" checkout -- . ; git -C "$REPO" clean -fdq -- geo geo-types jts-test-runner
  case "$res" in *rc=1*) verdict=CAUGHT ;; *) verdict=MISSED ;; esac
  echo "$n $verdict$res" | tee -a seeded/RERUN.log.new
done
mv seeded/RERUN.log.new seeded/RERUN.log
echo "caught $(grep -c CAUGHT seeded/RERUN.log) of $(wc -l < seeded/RERUN.log)"
