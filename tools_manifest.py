#!/usr/bin/env python3
"""Regenerates MANIFEST.json from the table below (run from /verif)."""
import json, subprocess
CHECKS = {
 "C01": dict(tech="proptest generated pairs vs exact DE-9IM oracle (cell decomposition; exact predicates on the doubles for segment pairs), transpose + re-representation metamorphic relations; libFuzzer in the thorough tier",
             text="Every generated ordered pair (all 10 types + collections, coincidence-biased lattice scenes, exact similarity images up to offsets of 2^40) is related by geo and compared cell by cell with an exact by-definition DE-9IM computed from the joint arrangement; both operand orders, the Geometry-enum path and two re-representations per pair. Held-on-everything-explored, not a proof.",
             note="Trusted: the harness's exact reference model (i128 rational arrangement + by-definition point location, self-tested). Inputs are exact images of small-integer lattice geometries, except the sub-family 'segments in doubles' (two segments with arbitrary double end points, decided by exact orientation signs on the doubles). Two known findings are excluded by exactly computed input classes (DESIGN 5.2).", ref="DESIGN.md §4 C01"),
 "C02": dict(tech="proptest generated pairs; every Intersects/Contains/Within impl and coordinate_position vs masks on the exact DE-9IM oracle / exact point location",
             text="For every generated ordered pair all concrete-type, Geometry-enum, mixed and Coord forms of intersects / contains / is_within are compared with the documented masks evaluated on the exact oracle matrix, and coordinate_position with exact point location at up to 200 lattice points around each operand.",
             note="Trusted: exact reference model; mask semantics as documented on the traits; lattice-image inputs only.", ref="DESIGN.md §4 C02"),
 "C03": dict(tech="proptest adversarial f64 generators (ulp-perturbed collinear triples, near-segment points) vs arbitrary-precision exact signs",
             text="Orientation, point-on-segment, segment-segment, winding and point-in-ring/polygon/triangle answers are compared with exact signs computed in arbitrary-precision dyadic arithmetic on inputs built to sit on the rounding boundary (the naive determinant has the wrong sign in ~14% of cases).",
             note="Trusted: hand-written BigInt/dyadic arithmetic (unit-tested against i128). Domain: coordinates zero or within [2^-400, 2^400] (no underflow in the adaptive predicates' expansions).", ref="DESIGN.md §4 C03"),
 "C05": dict(tech="proptest generated polygons with independent ring directions under exact similarities vs exact i128 twice-area",
             text="signed/unsigned area, Rect/Triangle vs polygon form, collection sums, winding_order/is_cw/is_ccw for every ring with rotated start and repeated points, and orient(Default/Reversed) are compared with the exact integer shoelace area scaled by 4^k, at translations up to 2^40.",
             note="Trusted: exact integer area on the lattice; tolerance 1e-12 x sum of |edge determinants|.", ref="DESIGN.md §4 C05"),
 "C06": dict(tech="proptest generated (nested, mixed-dimension, degenerate) geometries vs by-definition centroid with exact integer moments; sliver triangles and tiny-length segments in doubles vs hull / weighted-mean predicates",
             text="centroid of every type incl. degenerate and empty members and nested mixed collections is compared with the definition (exact integer moments for areas, length-weighted midpoints, mean of points), None iff no coordinates, hull containment, equivariance under exact similarities.",
             note="Trusted: oracle accumulators; tolerance 16 ulp of the coordinate magnitude + 1e-9 extent. Point weights of degenerate line strings in zero-dimensional collections are unspecified and only hull-checked.", ref="DESIGN.md §4 C06"),
 "C08": dict(tech="proptest generated coordinate multisets (tiny lattices, collinear, large-magnitude near-parallel rows) vs exact strict hull",
             text="quick_hull, graham_hull and convex_hull() outputs are checked for closedness, strict left turns, vertex membership, containment of every input (exact i128 orientation) and vertex-set equality with the exact strict hull; minimum_rotated_rect for containment and area bound.",
             note="Trusted: exact monotone-chain hull in i128; integer-valued coordinates (f64 up to 2^52 with zeros of both signs, i64 below 2^30); generic doubles against an arbitrary-precision hull.", ref="DESIGN.md §4 C08"),
 "C09": dict(tech="proptest generated lines/rings and tolerances (incl. exact ties) vs validity predicates over the simplified output",
             text="RDP, Visvalingam and topology-preserving Visvalingam outputs (coordinate and index variants, Line/MultiLine/Polygon/MultiPolygon) are checked to be index-consistent subsequences keeping the end points, within the distance / area bound (existentially over embeddings when points repeat), closed and not below four coordinates where claimed, identity for eps <= 0.",
             note="Trusted: own point-segment distance and triangle area in f64 with relative tolerance 1e-9.", ref="DESIGN.md §4 C09"),
 "C11": dict(tech="proptest generated segment pairs (lattice, collinear, nearly parallel, large and extreme magnitude, f64 and the same points in f32) vs exact arbitrary-precision classification",
             text="line_intersection's class (None / proper / improper / Collinear), improper point bits, overlap endpoints, envelope containment and conditioning-scaled accuracy of proper points, agreement with intersects, and independence of segment order and direction are checked against an exact classification.",
             note="Trusted: BigInt dyadic arithmetic. Domain: coordinates zero or within [2^-400, 2^400]. The proper flag is not asserted for zero-length segments.", ref="DESIGN.md §4 C11"),
 "C17": dict(tech="proptest generated call histories on one PreparedGeometry vs plain relate and the exact DE-9IM oracle",
             text="Histories of 1-12 relate calls reuse one prepared geometry (concrete type or enum) in first / second position, against prepared or plain partners, with itself, through clones, with repeats; after every call the result must equal plain relate, the exact oracle matrix and the earlier result of the same step.",
             note="Trusted: exact reference model; single-threaded use (PreparedGeometry is !Send).", ref="DESIGN.md §4 C17"),
 "C18": dict(tech="proptest generated API histories with a lock-step model (stateful / model-based testing)",
             text="Sequences of up to 30 constructor / mutator calls (incl. fallible closures failing after k edits) on Polygon<f64>/<i32> and Rect are run against a model; after every call all rings must be closed and equal the model, Results passed through, Rect min <= max, conversions preserve coordinates and order.",
             note="Finite coordinates; the documented panic of Rect::set_min/max on out-of-range bounds is accepted.", ref="DESIGN.md §4 C18"),
 "C19": dict(tech="proptest generated structural values vs an independent recursive traversal (differential)",
             text="For arbitrary (also invalid / empty / nested) values of all types, coords_count, coords_iter, exterior_coords_iter, lines_iter, map_coords(_in_place), try_map_coords (Ok and first error), bounding_rect, extremes and is_empty are compared with a reference traversal over the public fields, via the concrete type and the Geometry enum.",
             note="Holes are kept inside the shell's bounding box (Polygon::bounding_rect is documented to use the exterior).", ref="DESIGN.md §4 C19"),
}

CHECKS.update({
 "C04": dict(tech="proptest generated (Multi)Polygon pairs vs exact trapezoid decomposition of the joint arrangement (membership + area oracle), metamorphic area identities",
             text="For intersection / union / difference / xor / boolean_op, unary_union and clip, the result's membership at every arrangement cell sample away from the input boundaries, its area, ring winding and closure, the three area identities, and the kept / dropped line lengths are compared with exact values from a trapezoid decomposition of the joint arrangement.",
             note="Trusted: exact cell decomposition; tolerance 2^-20 extent + 8 ulp, far above the overlay engine's 2^-29 extent grid.", ref="DESIGN.md §4 C04"),
 "C07": dict(tech="proptest generated pairs vs exact rational minimum squared distance and exact DE-9IM (zero iff intersecting); points next to segments at rounding level vs exact on-segment test; point sets at extreme scale",
             text="Euclidean distance for every ordered type pair, the enum path and re-representations is compared with sqrt of the exact minimum squared distance over primitive pairs; it must be exactly 0.0 iff the exact DE-9IM says the operands intersect.",
             note="Trusted: exact reference model; relative tolerance 1e-12 + 4 ulp of the coordinate magnitude.", ref="DESIGN.md §4 C07"),
 "C10": dict(tech="proptest generated valid polygons vs exact coverage-count oracle on the arrangement of polygon and piece edges",
             text="Ear-cut, constrained / outer / unconstrained Delaunay triangles and monotone pieces must cover every arrangement cell inside the polygon (resp. hull) exactly once and none outside, use only polygon vertices, sum to the exact area; MonotonicPolygons::intersects is compared with exact point location on a lattice; stitching must reproduce the area.",
             note="Trusted: exact trapezoid decomposition and point location; TriangulationError results are counted, not alarmed.", ref="DESIGN.md §4 C10"),
 "C12": dict(tech="proptest generated geometries and query points vs exact point location / exact distance; thin triangles in doubles vs exact orientation signs of the returned point",
             text="closest_point must be Intersection iff the query intersects the geometry, otherwise a point on the geometry at the true distance, never Indeterminate for valid non-empty input; interior_point (concrete and enum) must return a point that is exactly located on the geometry, strictly inside for areal ones; no panics.",
             note="Trusted: exact reference model; returned f64 points are dyadic rationals and located exactly when mapping back through the similarity is exact.", ref="DESIGN.md §4 C12"),
 "C13": dict(tech="proptest algebraic laws on generated matrix chains + metamorphic commutation of geo's algorithms with exact similarity maps",
             text="compose / compose_many / inverse / apply laws (exact for i64, 1e-12 for f64), every Rotate / Scale / Skew / Translate form vs the documented matrix about the documented origin, and equality of relate, predicates, coordinate_position, hull, winding (and exact scaling of area, length, distance, centroid, bounding_rect) before and after exact similarity maps.",
             note="No external oracle needed: geo is compared with itself and with the matrix definition.", ref="DESIGN.md §4 C13"),
 "C14": dict(tech="proptest generated valid polygons and single-operator mutants vs exact validity model (literal transcription of the statement)",
             text="is_valid, validation_errors and check_validation on valid inputs and on bow-ties, spikes, collinear rings, displaced / edge-sharing / nested holes, overlapping / edge-sharing members and non-finite coordinates are compared with an exact validity model that also names the defective ring or member; reported errors must be confirmed by it when exactly one defect exists.",
             note="Trusted: exact ring simplicity and exact DE-9IM between rings; connected interiors are not demanded (not in the statement).", ref="DESIGN.md §4 C14"),
 "C15": dict(tech="proptest generated lines / ratios / segment lengths vs an independent arc-length walk and structural densify predicate",
             text="The four interpolation forms, the deprecated one, line_locate_point round trip, Length, and densify (structure, exact insertion count, on-segment, length conservation, maximum segment length) are compared with an independent arc-length computation at boundary ratios and exact-divisor lengths.",
             note="Tolerance 1e-9 (L + max|coord|).", ref="DESIGN.md §4 C15"),
 "C16": dict(tech="proptest generated lon/lat pairs (antimeridian, poles, near-coincident, near-antipodal) vs the round-trip / metric identities of the statement",
             text="Per metric space: non-negativity, symmetry, bearing range, destination(bearing, distance) round trip and ratio split within 1 mm + 1e-9 d on the well-conditioned sub-domain, length additivity, periodicity / oddness of destination, radius linearity, Geodesic-on-sphere = Haversine, deprecated forms identical.",
             note="No external reference values; tolerances calibrated on the pinned tree; the ill-conditioned near-east-west rhumb band is excluded.", ref="DESIGN.md §4 C16"),
 "C20": dict(tech="proptest generated workloads: repeated in-process execution, rayon pools of 1/2/3/16 threads, and re-execution in fresh processes; bit-exact output digests",
             text="Each workload (Boolean ops incl. inputs above the overlay engine's parallel thresholds, stitching, triangulations, concave hulls, outliers) must render bit-identically when repeated, after unrelated work, under four rayon pool sizes and in fresh processes with RAYON_NUM_THREADS = 1, 2, 16.",
             note="Schedules inside rayon are sampled, not enumerated.", ref="DESIGN.md §4 C20"),
})

NOT_YET = {}
props = [json.loads(l) for l in open("properties.jsonl")]
checks = []
na = []
for p in props:
    i = p["id"]
    if i in CHECKS:
        c = CHECKS[i]
        checks.append({
            "property_id": i,
            "quick_cmd": f"./check {i} quick",
            "thorough_cmd": f"./check {i} thorough",
            "evidence_file": f"/verif/evidence/{i}.json",
            "replay_cmd_template": f"./check {i} --replay {{path}}",
            "engine": "geoverif",
            "level_claimed": {"category": "exploration", "text": c["text"], "design_ref": c["ref"]},
            "level_note": c["note"],
            "technique": c["tech"],
        })
    else:
        na.append({"property_id": i, "reason": NOT_YET.get(i, "check not built yet in this snapshot (work in progress; the design in DESIGN.md §4 applies property-based testing to it)")})
m = {
 "version": 1,
 "setup_cmd": "./check --build",
 "hooks": {"guard": "geo_verif", "enable": "RUSTFLAGS='--cfg geo_verif' (set by ./check; no hook code exists, the checks use only the public API)",
           "baseline_off_cmd": "cd /repo && cargo nextest run --workspace --no-fail-fast --test-threads 8 --offline",
           "source_commits": [], "add_only": True},
 "engines": [{"name": "geoverif", "path": "/verif/harness", "serves_properties": [c["property_id"] for c in checks],
              "kind_free_text": "Rust harness: sharded proptest runner (16 fixed shards, VERIF_SEED), exact reference model, replay, evidence writer, known-findings matcher"}],
 "checks": checks,
 "not_applicable": na,
 "notes": "All commands run from /verif and rebuild the harness against /repo's working tree (geo is a path dependency). Exit 0 held, 1 violation, 2 inconclusive (build failure / hang / harness arithmetic limit).",
}
json.dump(m, open("MANIFEST.json", "w"), indent=1)
print("checks:", len(checks), "not_applicable:", len(na))
