#!/usr/bin/env python3
"""Regenerates MANIFEST.json from the table below (run from /verif)."""
import json, subprocess
CHECKS = {
 "C01": dict(tech="proptest generated pairs vs exact DE-9IM oracle (cell decomposition), transpose + re-representation metamorphic relations",
             text="Every generated ordered pair (all 10 types + collections, coincidence-biased lattice scenes, exact similarity images up to offsets of 2^40) is related by geo and compared cell by cell with an exact by-definition DE-9IM computed from the joint arrangement; both operand orders, the Geometry-enum path and two re-representations per pair. Held-on-everything-explored, not a proof.",
             note="Trusted: the harness's exact reference model (i128 rational arrangement + by-definition point location, self-tested); inputs are exact images of small-integer lattice geometries only.", ref="DESIGN.md §4 C01"),
}
NOT_YET = {}
props = [json.loads(l) for l in open("properties.jsonl")]
checks = []
na = []
for p in props:
    i = p["id"]
    if i in CHECKS:
        c = CHECKS[i]
        checks.append({
            "property_id": i,
            "quick_cmd": f"./check {i} quick",
            "thorough_cmd": f"./check {i} thorough",
            "evidence_file": f"/verif/evidence/{i}.json",
            "replay_cmd_template": f"./check {i} --replay {{path}}",
            "engine": "geoverif",
            "level_claimed": {"category": "exploration", "text": c["text"], "design_ref": c["ref"]},
            "level_note": c["note"],
            "technique": c["tech"],
        })
    else:
        na.append({"property_id": i, "reason": NOT_YET.get(i, "check not built yet in this snapshot (work in progress; the design in DESIGN.md §4 applies property-based testing to it)")})
m = {
 "version": 1,
 "setup_cmd": "./check --build",
 "hooks": {"guard": "geo_verif", "enable": "RUSTFLAGS='--cfg geo_verif' (set by ./check; no hook code exists, the checks use only the public API)",
           "baseline_off_cmd": "cd /repo && cargo nextest run --workspace --no-fail-fast --test-threads 8 --offline",
           "source_commits": [], "add_only": True},
 "engines": [{"name": "geoverif", "path": "/verif/harness", "serves_properties": [c["property_id"] for c in checks],
              "kind_free_text": "Rust harness: sharded proptest runner (16 fixed shards, VERIF_SEED), exact reference model, replay, evidence writer, known-findings matcher"}],
 "checks": checks,
 "not_applicable": na,
 "notes": "All commands run from /verif and rebuild the harness against /repo's working tree (geo is a path dependency). Exit 0 held, 1 violation, 2 inconclusive (build failure / hang / harness arithmetic limit).",
}
json.dump(m, open("MANIFEST.json", "w"), indent=1)
print("checks:", len(checks), "not_applicable:", len(na))
